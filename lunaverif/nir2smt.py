"""Amaranth NIR netlist -> z3 (QF_BV) transition system.

The netlist is produced by Amaranth's own front end from the elaboratable
(`Fragment.get` + `build_netlist`); nothing about the design is modelled by
hand.  One `Frame` evaluates the combinational logic for one clock step from
a state valuation and an input valuation and yields the next-state functions.

Conventions
-----------
* every cell output is one z3 bit-vector as wide as the cell; 1-bit logic is
  kept in bit-vector form (bvxor/bvand/...), which lets z3's rewriter
  normalise XOR networks (CRCs, LFSRs);
* state = flip-flops, memories (list of words) and synchronous read ports;
* a step ticks a set of clock domains (all of them by default).
"""
import sys
import z3
from amaranth.hdl import _nir as nir
from amaranth.hdl._ir import Fragment, build_netlist

sys.setrecursionlimit(1000000)


def bv(val, w):
    return z3.BitVecVal(val, w)


_ONE = None


def _b2bv(cond):
    return z3.If(cond, z3.BitVecVal(1, 1), z3.BitVecVal(0, 1))


class UnsupportedCell(Exception):
    pass


class TS:
    """Transition system of an elaborated design."""

    def __init__(self, elaboratable, ports, platform=None, name="top"):
        frag = elaboratable if isinstance(elaboratable, Fragment) else Fragment.get(elaboratable, platform)
        # one prepared Design serves both the netlist and (in co-simulation) pysim
        self.design = frag.prepare(ports=list(ports), hierarchy=(name,))
        self.netlist = nl = build_netlist(self.design)
        self.cells = nl.cells
        self.top = nl.top
        self.flops, self.mems, self.srports = [], [], []
        self.wports = {}
        for i, c in enumerate(nl.cells):
            if isinstance(c, nir.FlipFlop):
                self.flops.append(i)
            elif isinstance(c, nir.Memory):
                self.mems.append(i)
            elif isinstance(c, nir.SyncWritePort):
                self.wports.setdefault(c.memory, []).append(i)
            elif isinstance(c, nir.SyncReadPort):
                self.srports.append(i)
            elif isinstance(c, (nir.Instance, nir.IOBuffer)):
                raise UnsupportedCell(f"{type(c).__name__} at {c.src_loc}")
        self.inputs = dict(self.top.ports_i)  # name -> (start, width)
        # clock nets -> domain name (through the top-level <domain>_clk ports)
        self.clk_of_net = {}
        for name, (start, width) in self.inputs.items():
            if name.endswith("_clk") and width == 1:
                self.clk_of_net[nir.Net.from_cell(0, start)] = name[:-4]
            elif name == "clk" and width == 1:       # Amaranth names the default domain's ports clk/rst
                self.clk_of_net[nir.Net.from_cell(0, start)] = "sync"
        self.domains = sorted(set(self.clk_of_net.values()))
        for i in self.flops + self.srports + [w for l in self.wports.values() for w in l]:
            c = self.cells[i]
            if c.clk not in self.clk_of_net:
                raise UnsupportedCell(f"cell {i} clocked by a non-port net {c.clk}")
            if c.clk_edge != "pos":
                raise UnsupportedCell(f"cell {i} uses a negative clock edge")
        self.state_bits = sum(len(self.cells[i].data) for i in self.flops) + \
            sum(self.cells[i].width for i in self.srports) + \
            sum(self.cells[i].width * self.cells[i].depth for i in self.mems if self.wports.get(i))
        self._names = None
        self.selfref = self._selfref_cells()

    def _selfref_cells(self):
        """AssignmentList cells lying on a cell-level combinational cycle (e.g. `x[11:16].eq(f(x[0:11]))`:
        acyclic per bit, cyclic per cell).  They are evaluated bit by bit."""
        cells = self.cells
        comb = {}
        for i, c in enumerate(cells):
            if i == 0 or isinstance(c, (nir.FlipFlop, nir.SyncReadPort, nir.Memory, nir.SyncWritePort, nir.Top)):
                continue
            try:
                nets = c.input_nets()
            except Exception:
                continue
            comb[i] = {n.cell for n in nets if not n.is_const and n.cell != 0}
        # cells reachable from themselves: iterative Tarjan-free check restricted to AssignmentLists
        out = set()
        for i, c in enumerate(cells):
            if not isinstance(c, nir.AssignmentList) or i not in comb:
                continue
            seen = set()
            stack = list(comb[i])
            while stack:
                j = stack.pop()
                if j == i:
                    out.add(i)
                    break
                if j in seen or j not in comb:
                    continue
                seen.add(j)
                stack.extend(comb[j])
        return out

    def port_names(self, signals):
        """map top-level input port name -> the harness signal it carries (robust against Amaranth's renaming of
        equally named signals, e.g. valid / valid$2)"""
        by_start = {start: name for name, (start, width) in self.inputs.items()}
        out = {}
        for sig in signals:
            val = self.netlist.signals.get(sig)
            if val is None or len(val) == 0:
                continue
            n0 = val[0]
            if not n0.is_const and n0.cell == 0 and n0.bit in by_start:
                out[by_start[n0.bit]] = sig
        return out

    # ---- descriptions
    def describe(self):
        return dict(cells=len(self.cells), flipflops=len(self.flops), state_bits=self.state_bits,
                    memories=len(self.mems), domains=self.domains)

    def src_files(self):
        files = {}
        for c in self.cells:
            if c.src_loc:
                files.setdefault(c.src_loc[0], set()).add(c.src_loc[1])
        return files

    def signal_by_name(self, path):
        """Look up a signal by hierarchical name 'a.b.sig' (suffix match, unique)."""
        if self._names is None:
            self._names = {}
            for mod in self.netlist.modules:
                prefix = ".".join(mod.name[1:]) if len(mod.name) > 1 else ""
                for sig, nm in mod.signal_names.items():
                    full = (prefix + "." + nm) if prefix else nm
                    self._names.setdefault(full, sig)
        hits = [s for n, s in self._names.items() if n == path or n.endswith("." + path)]
        ids = {id(s) for s in hits}
        if len(ids) == 1:
            return hits[0]
        return None

    def flop_signals(self):
        """map flop cell index -> list of (signal, lo_bit_in_signal, lo_bit_in_cell, width)"""
        rev = {}
        for sig, val in self.netlist.signals.items():
            for b, net in enumerate(val):
                if not net.is_const and net.cell in self._flopset():
                    rev.setdefault(net.cell, []).append((sig, b, net.bit))
        return rev

    def _flopset(self):
        if not hasattr(self, "_fs"):
            self._fs = set(self.flops)
        return self._fs

    # ---- state
    def init_state(self, mem_override=None):
        st = {}
        for i in self.flops:
            c = self.cells[i]
            st[i] = bv(c.init, len(c.data))
        for i in self.mems:
            c = self.cells[i]
            if mem_override and c.name in mem_override:
                st[i] = list(mem_override[c.name])
                assert len(st[i]) == c.depth
            else:
                st[i] = [bv(v, c.width) for v in c.init]
        for i in self.srports:
            c = self.cells[i]
            st[i] = bv(0, c.width)
        return st

    def free_state(self, prefix):
        st = {}
        for i in self.flops:
            c = self.cells[i]
            st[i] = z3.BitVec(f"{prefix}ff{i}", len(c.data))
        for i in self.mems:
            c = self.cells[i]
            if self.wports.get(i):
                st[i] = [z3.BitVec(f"{prefix}m{i}_{a}", c.width) for a in range(c.depth)]
            else:
                st[i] = [bv(v, c.width) for v in c.init]
        for i in self.srports:
            c = self.cells[i]
            st[i] = z3.BitVec(f"{prefix}rp{i}", c.width)
        return st

    def frame(self, state, inputs):
        return Frame(self, state, inputs)


class Frame:
    def __init__(self, ts, state, inputs):
        self.ts = ts
        self.state = state
        self.inputs = inputs  # name -> z3 bv
        self.cache = {}
        self.xcache = {}
        self.topbits = {}
        for name, (start, width) in ts.inputs.items():
            v = inputs[name]
            assert v.size() == width, (name, v.size(), width)
            for b in range(width):
                self.topbits[start + b] = (v, b)

    def net(self, n):
        if n.is_const:
            return bv(n.const, 1)
        return self._slice(n.cell, n.bit, 1)

    def _abit(self, c, b):
        """one bit of a self-referential AssignmentList cell: priority chain of the assignments covering it"""
        key = ("bit", c, b)
        r = self.xcache.get(key)
        if r is not None:
            return r
        cell = self.ts.cells[c]
        cur = self.net(cell.default[b])
        for a in cell.assignments:
            if a.start <= b < a.start + len(a.value):
                cur = z3.If(self.net(a.cond) == 1, self.net(a.value[b - a.start]), cur)
        self.xcache[key] = cur
        return cur

    def _slice(self, c, lo, w):
        key = (c, lo, w)
        r = self.xcache.get(key)
        if r is not None:
            return r
        if c in self.ts.selfref:
            bits = [self._abit(c, lo + k) for k in range(w)]
            r = bits[0] if w == 1 else z3.Concat(*reversed(bits))
            self.xcache[key] = r
            return r
        if c == 0:
            src, sb = self.topbits[lo]
            ok = all(self.topbits[lo + k][0] is src and self.topbits[lo + k][1] == sb + k for k in range(w))
            if ok:
                r = src if (sb == 0 and w == src.size()) else z3.Extract(sb + w - 1, sb, src)
            else:
                parts = [self._slice(0, lo + k, 1) for k in range(w)]
                r = z3.Concat(*reversed(parts))
        else:
            full = self.cell(c)
            r = full if (lo == 0 and w == full.size()) else z3.Extract(lo + w - 1, lo, full)
        self.xcache[key] = r
        return r

    def value(self, val):
        """bit-vector for a nir.Value (tuple of nets, LSB first); None for width 0"""
        n = len(val)
        if n == 0:
            return None
        chunks = []
        pos = 0
        while pos < n:
            net = val[pos]
            if net.is_const:
                v = 0
                q = pos
                while q < n and val[q].is_const:
                    v |= val[q].const << (q - pos)
                    q += 1
                chunks.append(bv(v, q - pos))
            else:
                c, b = net.cell, net.bit
                q = pos + 1
                while q < n and (not val[q].is_const) and val[q].cell == c and val[q].bit == b + (q - pos):
                    q += 1
                chunks.append(self._slice(c, b, q - pos))
            pos = q
        if len(chunks) == 1:
            return chunks[0]
        return z3.Concat(*reversed(chunks))

    def cell(self, idx):
        if idx in self.ts.selfref:
            return self._slice(idx, 0, len(self.ts.cells[idx].default))
        r = self.cache.get(idx)
        if r is None:
            r = self._eval(idx, self.ts.cells[idx])
            self.cache[idx] = r
        return r

    def _eval(self, idx, c):
        V = self.value
        if isinstance(c, (nir.FlipFlop, nir.SyncReadPort)):
            return self.state[idx]
        if isinstance(c, nir.Operator):
            op = c.operator
            ins = [V(i) for i in c.inputs]
            if len(ins) == 1:
                a, = ins
                if op == '~': return ~a
                if op == '-': return -a
                if op in ('b', 'r|'): return _b2bv(a != 0)
                if op == 'r&': return _b2bv(a == bv(-1, a.size()))
                if op == 'r^':
                    r = z3.Extract(0, 0, a)
                    for k in range(1, a.size()):
                        r = r ^ z3.Extract(k, k, a)
                    return r
            elif len(ins) == 2:
                a, b = ins
                if op == '+': return a + b
                if op == '-': return a - b
                if op == '*': return a * b
                if op == '&': return a & b
                if op == '|': return a | b
                if op == '^': return a ^ b
                if op == '==': return _b2bv(a == b)
                if op == '!=': return _b2bv(a != b)
                if op == 'u<': return _b2bv(z3.ULT(a, b))
                if op == 'u>': return _b2bv(z3.UGT(a, b))
                if op == 'u<=': return _b2bv(z3.ULE(a, b))
                if op == 'u>=': return _b2bv(z3.UGE(a, b))
                if op == 's<': return _b2bv(a < b)
                if op == 's>': return _b2bv(a > b)
                if op == 's<=': return _b2bv(a <= b)
                if op == 's>=': return _b2bv(a >= b)
                if op in ('<<', 'u>>', 's>>'):
                    wa, wb = a.size(), b.size()
                    big = None
                    if wb < wa:
                        b2 = z3.ZeroExt(wa - wb, b)
                    elif wb > wa:
                        big = z3.UGE(b, bv(wa, wb))
                        b2 = z3.Extract(wa - 1, 0, b)
                    else:
                        b2 = b
                    if op == '<<':
                        r = a << b2; ov = bv(0, wa)
                    elif op == 'u>>':
                        r = z3.LShR(a, b2); ov = bv(0, wa)
                    else:
                        r = a >> b2
                        ov = z3.If(z3.Extract(wa - 1, wa - 1, a) == 1, bv(-1, wa), bv(0, wa))
                    if big is not None:
                        r = z3.If(big, ov, r)
                    return r
                if op == 'u//': return z3.If(b == 0, bv(0, a.size()), z3.UDiv(a, b))
                if op == 'u%': return z3.If(b == 0, bv(0, a.size()), z3.URem(a, b))
                if op == 's//':
                    # Amaranth: floor division
                    q = a / b
                    rem = z3.SRem(a, b)
                    adj = z3.And(rem != 0, (z3.Extract(a.size() - 1, a.size() - 1, a ^ b) == 1))
                    return z3.If(b == 0, bv(0, a.size()), z3.If(adj, q - 1, q))
                if op == 's%':
                    rem = z3.SRem(a, b)
                    adj = z3.And(rem != 0, (z3.Extract(a.size() - 1, a.size() - 1, a ^ b) == 1))
                    return z3.If(b == 0, bv(0, a.size()), z3.If(adj, rem + b, rem))
            elif len(ins) == 3 and op == 'm':
                s, a, b = ins
                return z3.If(s == 1, a, b)
            raise UnsupportedCell(f"operator {op} arity {len(ins)}")
        if isinstance(c, nir.Part):
            val = V(c.value)
            off = V(c.offset)
            w = c.width
            vw = val.size()
            ow = off.size()
            # wide enough to hold value extended by w result bits and the shift amount
            maxsh = ((1 << ow) - 1) * c.stride
            need = max(vw + w, maxsh.bit_length() + 1)
            e2 = z3.SignExt(need - vw, val) if c.value_signed else z3.ZeroExt(need - vw, val)
            sh = z3.ZeroExt(need - ow, off) * bv(c.stride, need)
            r = (e2 >> sh) if c.value_signed else z3.LShR(e2, sh)
            return z3.Extract(w - 1, 0, r)
        if isinstance(c, nir.Matches):
            if len(c.value) == 0:
                return bv(1 if c.patterns else 0, 1)
            val = V(c.value)
            conds = []
            for p in c.patterns:
                w = len(p)
                mask = int(''.join('0' if ch == '-' else '1' for ch in p), 2)
                bits = int(''.join('1' if ch == '1' else '0' for ch in p), 2)
                if mask == (1 << w) - 1:
                    conds.append(val == bv(bits, w))
                else:
                    conds.append((val & bv(mask, w)) == bv(bits, w))
            if not conds:
                return bv(0, 1)
            return _b2bv(z3.Or(*conds) if len(conds) > 1 else conds[0])
        if isinstance(c, nir.PriorityMatch):
            en = self.net(c.en)
            n = len(c.inputs)
            outs = []
            blocked = ~en
            for k in range(n):
                bit = self.net(c.inputs[k])
                outs.append(bit & ~blocked)
                blocked = blocked | bit
            return outs[0] if n == 1 else z3.Concat(*reversed(outs))
        if isinstance(c, nir.AssignmentList):
            cur = V(c.default)
            w = cur.size()
            for a in c.assignments:
                cond = self.net(a.cond) == 1
                val = V(a.value)
                lo = a.start
                hi = lo + val.size()
                assert hi <= w
                if lo == 0 and hi == w:
                    new = val
                else:
                    parts = []
                    if lo > 0: parts.append(z3.Extract(lo - 1, 0, cur))
                    parts.append(val)
                    if hi < w: parts.append(z3.Extract(w - 1, hi, cur))
                    new = z3.Concat(*reversed(parts))
                cur = z3.If(cond, new, cur)
            return cur
        if isinstance(c, nir.AsyncReadPort):
            return self._memread(self.state[c.memory], V(c.addr), c.width)
        if isinstance(c, nir.Initial):
            return self.inputs.get("$initial", bv(0, 1))
        if isinstance(c, nir.AnyValue):
            return self.inputs[f"$any{idx}"]
        raise UnsupportedCell(type(c).__name__)

    @staticmethod
    def _memread(mem, addr, width):
        if addr is None:                 # zero-width address: single-word memory
            return mem[0]
        aw = addr.size()
        r = bv(0, width)
        for a in range(len(mem) - 1, -1, -1):
            if a >= (1 << aw):
                continue
            r = z3.If(addr == bv(a, aw), mem[a], r)
        return r

    def next_state(self, domains=None):
        """next-state valuation when the clock domains in `domains` tick (None = all)"""
        ts = self.ts
        ns = {}

        def active(c):
            return domains is None or ts.clk_of_net[c.clk] in domains

        for i in ts.flops:
            c = ts.cells[i]
            if not active(c):
                ns[i] = self.state[i]
                continue
            d = self.value(c.data)
            if not (c.arst.is_const and c.arst.const == 0):
                d = z3.If(self.net(c.arst) == 1, bv(c.init, len(c.data)), d)
            ns[i] = d
        written_by = {}
        for i in ts.mems:
            mem = list(self.state[i])
            for wp in ts.wports.get(i, []):
                c = ts.cells[wp]
                if not active(c):
                    continue
                data = self.value(c.data); addr = self.value(c.addr); en = self.value(c.en)
                aw = addr.size() if addr is not None else 0
                w = data.size()
                uniform = all(n == c.en[0] for n in c.en)
                for a in range(len(mem)):
                    if a >= (1 << aw):
                        continue
                    hit = (addr == bv(a, aw)) if aw else z3.BoolVal(True)
                    if uniform:
                        mem[a] = z3.If(z3.And(hit, self.net(c.en[0]) == 1), data, mem[a])
                    else:
                        assert en.size() == w
                        mem[a] = z3.If(hit, (data & en) | (mem[a] & ~en), mem[a])
            ns[i] = mem
        for i in ts.srports:
            c = ts.cells[i]
            if not active(c):
                ns[i] = self.state[i]
                continue
            addr = self.value(c.addr)
            if c.transparent_for:
                # transparent w.r.t. the listed write ports: apply only those writes
                mem = list(self.state[c.memory])
                for wp in c.transparent_for:
                    wc = ts.cells[wp]
                    if not active(wc):
                        continue
                    data = self.value(wc.data); waddr = self.value(wc.addr); en = self.value(wc.en)
                    aw = waddr.size() if waddr is not None else 0
                    for a in range(len(mem)):
                        if a >= (1 << aw):
                            continue
                        hit = (waddr == bv(a, aw)) if aw else z3.BoolVal(True)
                        mem[a] = z3.If(hit, (data & en) | (mem[a] & ~en), mem[a])
                rd = self._memread(mem, addr, c.width)
            else:
                rd = self._memread(self.state[c.memory], addr, c.width)
            ns[i] = z3.If(self.net(c.en) == 1, rd, self.state[i])
        return ns

    def sig(self, signal):
        v = self.value(self.ts.netlist.signals[signal])
        return v
