"""Shared ULPI PHY environment model (DESIGN.md section 4, `ulpi_phy`).

`ULPIBus`      a plain ULPI bus object (clk, data.i/o/oe, dir.i, nxt.i, stp.o) *without* `rst`, so that
               UTMITranslator needs no 1 ms start-up counter.
`ULPIPhyModel` the PHY side of the bus.  DIR / NXT / DATA are free harness inputs; the ULPI 1.1 rules a PHY obeys are
               exported as assumptions; the link's commands are decoded by an independent PHY-side state machine
               (transmit command, immediate register write) that feeds a ghost register file.

PHY contract (ULPI 1.1, sections 3.5, 3.8):
  * a DIR edge is followed by a turnaround cycle; the first cycle of DIR=1 is the turnaround, in which NXT=1 is the
    "receive started" indication and DATA is undefined; DIR stays high for at least the turnaround plus one byte;
  * while DIR=1: NXT=0 -> RxCmd on DATA, NXT=1 -> receive data on DATA;
  * while DIR=0 the PHY raises NXT only to accept a byte of a command the link is presenting (a non-zero TXCMD byte
    in the idle state, or any byte inside an accepted command); never in the turnaround cycle after DIR fell;
  * once the PHY accepted a *transmit* command it does not raise DIR before the link's STP (USB is half duplex;
    RxCmds caused by the transmission are deferred, 3.8.2); a command whose TXCMD byte was not yet accepted, and a
    register write in any phase, may be aborted by DIR at any time (3.8.3.3) and must be retried by the link;
  * receive data bytes (DIR=1, NXT=1 outside the turnaround) are sent only inside a receive the PHY announced by the
    DIR-rise-with-NXT indication or by an RxCmd with RxActive=1, and not after an RxCmd with RxActive=0;
  * the PHY sends register-read data only in answer to a RegRead command (the translators never issue one).
Frame convention: everything is the value *during* cycle t; the PHY samples the link's byte at the clock edge ending
a cycle in which NXT=1 and DIR=0.
"""
from types import SimpleNamespace
from amaranth import *

FUNC_CTRL, OTG_CTRL = 0x04, 0x0A
FUNC_CTRL_RESET, OTG_CTRL_RESET = 0x41, 0x06          # ULPI 1.1 table 7 reset values


class ULPIBus:
    def __init__(self):
        self.clk = SimpleNamespace(o=Signal(name="ulpi_clk_o"))
        self.data = SimpleNamespace(i=Signal(8, name="ulpi_data_i"), o=Signal(8, name="ulpi_data_o"),
                                    oe=Signal(name="ulpi_data_oe"))
        self.dir = SimpleNamespace(i=Signal(name="ulpi_dir_i"))
        self.nxt = SimpleNamespace(i=Signal(name="ulpi_nxt_i"))
        self.stp = SimpleNamespace(o=Signal(name="ulpi_stp_o"))


class ULPIPhyModel:
    IDLE, TX, RW_DATA, RW_STP = range(4)

    def __init__(self, h, bus, domain="usb", tx_abort=False, rx_data_needs_start=True):
        """h: Harness (inputs/assumptions are registered on it); tx_abort: PHY may raise DIR inside an accepted
        transmit command (then the PHY drops the command)."""
        self.bus, self.domain, self.tx_abort = bus, domain, tx_abort
        self.dir = h.inp("dir", signal=bus.dir.i)
        self.nxt = h.inp("nxt", signal=bus.nxt.i)
        self.data_i = h.inp("data_i", signal=bus.data.i)
        self.a_nxt = h.assume("phy_nxt_legal")
        self.a_dir = h.assume("phy_dir_legal")
        # PHY-side decoder state
        self.state = Signal(2, name="phy_state")
        self.prev_dir = Signal(name="phy_prev_dir")
        self.prev2_dir = Signal(name="phy_prev2_dir")
        self.rw_addr = Signal(6, name="phy_rw_addr")
        self.rw_data = Signal(8, name="phy_rw_data")
        # ghost register file (Function Control, OTG Control) with write/set/clear addresses
        self.reg_fc = Signal(8, name="phy_reg_fc", init=FUNC_CTRL_RESET)
        self.reg_otg = Signal(8, name="phy_reg_otg", init=OTG_CTRL_RESET)
        # events (combinational, value during the current cycle)
        self.turnaround = Signal(name="phy_turnaround")
        self.cmd_present = Signal(name="phy_cmd_present")     # idle PHY sees a non-zero command byte
        self.cmd_tx = Signal(name="phy_cmd_tx")               # ... of class transmit  (01xxxxxx)
        self.cmd_rw = Signal(name="phy_cmd_rw")               # ... register write     (10xxxxxx)
        self.cmd_rr = Signal(name="phy_cmd_rr")               # ... register read      (11xxxxxx)
        self.cmd_other = Signal(name="phy_cmd_other")         # ... reserved           (00xxxxxx, non-zero)
        self.txcmd_acc = Signal(name="phy_txcmd_acc")         # PHY accepts a transmit command byte
        self.txdata_acc = Signal(name="phy_txdata_acc")       # PHY accepts a transmit data byte
        self.tx_stp = Signal(name="phy_tx_stp")               # STP ends the transmit command
        self.rwcmd_acc = Signal(name="phy_rwcmd_acc")         # PHY accepts a register-write command byte
        self.rwdata_acc = Signal(name="phy_rwdata_acc")       # PHY accepts the register-write data byte
        self.rw_commit = Signal(name="phy_rw_commit")         # STP completes the register write
        self.rw_abort = Signal(name="phy_rw_abort")           # DIR aborted a register write in progress
        self.link_err = Signal(name="phy_link_err")           # link broke the command framing (no/early STP)
        # receive side (PHY -> link), all combinational except the two ghosts
        self.a_rxdata = h.assume("phy_rxdata_in_packet") if rx_data_needs_start else None
        self.rx_start_ind = Signal(name="phy_rx_start_ind")   # turnaround cycle of a DIR rise with NXT=1
        self.rxcmd = Signal(name="phy_rxcmd")                 # DATA carries an RxCmd in this cycle
        self.rxdata = Signal(name="phy_rxdata")               # DATA carries a receive data byte in this cycle
        self.rxa = Signal(name="phy_rxa")                     # ghost: RxActive as signalled in the cycles before this one
        self.last_rxcmd = Signal(8, name="phy_last_rxcmd")    # ghost: most recent RxCmd sent in the cycles before this one
        self.rxcmd_seen = Signal(name="phy_rxcmd_seen")
        for n in ("state", "reg_fc", "reg_otg", "rxa", "last_rxcmd"):
            h.obs("phy_" + n, getattr(self, n))

    def in_state(self, s):
        return self.state == s

    def build(self, m):
        d = m.d[self.domain]
        bus = self.bus
        dir_, nxt, do, stp = bus.dir.i, bus.nxt.i, bus.data.o, bus.stp.o
        d += [self.prev_dir.eq(dir_), self.prev2_dir.eq(self.prev_dir)]
        st = self.state
        idle, tx, rwd, rws = (st == self.IDLE), (st == self.TX), (st == self.RW_DATA), (st == self.RW_STP)
        bus_ok = ~dir_ & ~self.prev_dir                      # link owns the bus and it is not the turnaround cycle
        m.d.comb += [
            self.turnaround.eq(dir_ != self.prev_dir),
            self.cmd_present.eq(idle & bus_ok & (do != 0)),
            self.cmd_tx.eq(self.cmd_present & (do[6:8] == 0b01)),
            self.cmd_rw.eq(self.cmd_present & (do[6:8] == 0b10)),
            self.cmd_rr.eq(self.cmd_present & (do[6:8] == 0b11)),
            self.cmd_other.eq(self.cmd_present & (do[6:8] == 0b00)),
            self.txcmd_acc.eq(self.cmd_tx & nxt),
            self.rwcmd_acc.eq(self.cmd_rw & nxt),
            self.txdata_acc.eq(tx & ~dir_ & nxt & ~stp),
            self.tx_stp.eq(tx & ~dir_ & stp),
            self.rwdata_acc.eq(rwd & ~dir_ & nxt & ~stp),
            self.rw_commit.eq(rws & ~dir_ & stp),
            self.rw_abort.eq((rwd | rws) & dir_),
            # framing errors of the link: STP while the data byte is still pending, or no STP right after it
            self.link_err.eq((rwd & ~dir_ & stp) | (rws & ~dir_ & ~stp)),
        ]
        # --- PHY contract
        in_cmd = tx | rwd | rws
        m.d.comb += self.a_nxt.eq(dir_ | ~nxt | (self.cmd_present | (in_cmd & ~self.prev_dir)))
        dir_rise = dir_ & ~self.prev_dir
        dir_fall = ~dir_ & self.prev_dir
        ok_fall = ~dir_fall | self.prev2_dir                 # high for >= 2 cycles
        ok_rise = Const(1) if self.tx_abort else ~(dir_rise & tx)
        m.d.comb += self.a_dir.eq(ok_fall & ok_rise)
        # --- receive side: what the PHY tells the link
        m.d.comb += [
            self.rx_start_ind.eq(dir_rise & nxt),
            self.rxcmd.eq(dir_ & self.prev_dir & ~nxt),
            self.rxdata.eq(dir_ & self.prev_dir & nxt),
        ]
        with m.If(~dir_):
            d += self.rxa.eq(0)                              # DIR low ends any receive (3.8.2.4)
        with m.Elif(self.rx_start_ind):
            d += self.rxa.eq(1)
        with m.Elif(self.rxcmd):
            d += self.rxa.eq(bus.data.i[4])
        with m.If(self.rxcmd):
            d += [self.last_rxcmd.eq(bus.data.i), self.rxcmd_seen.eq(1)]
        if self.a_rxdata is not None:
            # receive data only inside a receive the PHY has announced (DIR rise with NXT, or RxCmd with RxActive)
            m.d.comb += self.a_rxdata.eq(~self.rxdata | self.rxa)
        # --- decoder
        with m.If(dir_):
            d += st.eq(self.IDLE)
        with m.Elif(idle):
            with m.If(self.txcmd_acc):
                d += st.eq(self.TX)
            with m.Elif(self.rwcmd_acc):
                d += [st.eq(self.RW_DATA), self.rw_addr.eq(do[0:6])]
        with m.Elif(tx):
            with m.If(stp):
                d += st.eq(self.IDLE)
        with m.Elif(rwd):
            with m.If(stp):
                d += st.eq(self.IDLE)
            with m.Elif(nxt):
                d += [st.eq(self.RW_STP), self.rw_data.eq(do)]
        with m.Elif(rws):
            d += st.eq(self.IDLE)
        # --- ghost register file
        with m.If(self.rw_commit):
            for base, reg in ((FUNC_CTRL, self.reg_fc), (OTG_CTRL, self.reg_otg)):
                with m.If(self.rw_addr == base):
                    d += reg.eq(self.rw_data)
                with m.If(self.rw_addr == base + 1):
                    d += reg.eq(reg | self.rw_data)
                with m.If(self.rw_addr == base + 2):
                    d += reg.eq(reg & ~self.rw_data)

    # random stimulus helper for co-simulation: a plausible PHY
    def stimulus(self, rng, st):
        """st: dict carried between calls; returns dir, nxt, data_i"""
        hi = st.get("hi", 0)
        if hi:
            st["hi"] = hi - 1
            return dict(dir=1, nxt=int(rng.random() < 0.5), data_i=rng.getrandbits(8))
        if rng.random() < 0.08:
            st["hi"] = rng.randint(1, 6)
            return dict(dir=1, nxt=int(rng.random() < 0.5), data_i=rng.getrandbits(8))
        return dict(dir=0, nxt=int(rng.random() < 0.6), data_i=rng.getrandbits(8))
