"""Interface-level USB host for IN endpoints (DESIGN 4 / 4.1), shared by C11, C14, C17.

One bus event per cycle, chosen by the free input `ev` and filtered by a bus-phase automaton so that only sequences
a legal host plus the real detectors (C01/C02/C04/C05 guarantees) can produce reach the endpoint:

   ev=1 token for this device (pid in IN/OUT/SETUP/PING, any endpoint) -> new_token strobe; pid/endpoint change with it
   ev=2 token for another device address                                 -> pid becomes 0, no strobe, no ready_for_response
   ev=3 ready_for_response                                               -> >= 1 cycle after new_token, at most once per token
   ev=4 ACK for the packet the device just sent                          -> only if the host received it (free rx_ok),
                                                                            >= 1 cycle after the packet's end, before the next token
   fack  broadcast ACK (the host acknowledges somebody else's IN data)   -> only after an IN token for another endpoint
                                                                            of this device (answered) or a token for another device
No token/handshake while the device transmits, nor in the cycle after ready_for_response (the device answers there).

tx.ready obeys the USBDataPacketGenerator contract: 0 outside packets, 0 in the first two cycles of a packet (generator
IDLE + SEND_PID), then free per cycle (PHY).

The host keeps its own expected data toggle `h_exp` and accepts a packet iff it received it (rx_ok) and the PID matches.
"""
from types import SimpleNamespace
from amaranth import *

PID_OUT, PID_IN, PID_SETUP, PID_PING = 0x1, 0x9, 0xD, 0x4
EV_NONE, EV_TOKEN, EV_OTHER, EV_RFR, EV_ACK = range(5)
PH_IDLE, PH_TOK, PH_RESP, PH_DEVTX = range(4)

HOST_ASSUMPTIONS = [
    "interface-level host (DESIGN 4.1): new_token is a one-cycle strobe and pid/endpoint change only with it; pid "
    "becomes 0 after a token for another device address; ready_for_response is a strobe >= 1 cycle after new_token, "
    "at most once per token; handshakes_in.ack is a one-cycle strobe",
    "legal host: no token/handshake while the device transmits or in the cycle after ready_for_response; the host "
    "ACKs a device packet only if it received it, after the packet's end and before its next token; it may ACK other "
    "endpoints'/devices' IN data (broadcast ACK) only after an answered IN token for another endpoint or a token for another address",
    "host never sends NAK/STALL/NYET (handshakes_in.nak/stall/nyet tied 0); tokenizer.address/frame/new_frame tied 0 (not read)",
    "tx.ready follows the USBDataPacketGenerator contract: 0 outside packets and in the first two cycles of a packet "
    "(generator IDLE + SEND_PID), free per cycle afterwards",
]


class InHostMixin:
    """mix into a Harness; call host_inputs() in __init__ and host_model() in elaborate"""

    def host_inputs(self):
        self.ev = self.inp("ev", 3)
        self.t_pid = self.inp("t_pid", 2)
        self.t_ep = self.inp("t_ep", 4)
        self.rx_ok = self.inp("rx_ok", 1)
        self.tx_ready = self.inp("tx_ready", 1)
        self.fack = self.inp("fack", 1)

    def host_stimulus(self, rng, d, ep):
        r = rng.random()
        d["ev"] = rng.choice([EV_NONE, EV_NONE, EV_TOKEN, EV_RFR, EV_RFR, EV_ACK, EV_ACK, EV_OTHER]) if r < 0.8 else rng.getrandbits(3)
        d["t_pid"] = 0 if rng.random() < 0.7 else rng.getrandbits(2)
        d["t_ep"] = ep if rng.random() < 0.8 else rng.getrandbits(4)
        d["tx_ready"] = int(rng.random() < 0.7)
        d["rx_ok"] = int(rng.random() < 0.7)
        return d

    def host_model(self, m, tok, hs_in, tx, tx_pid, ep, maxlen):
        """drives tok.*, hs_in.ack, tx.ready; returns the model's signals"""
        ph = Signal(2, name="h_phase")
        pid_reg = Signal(4, name="h_pid")
        ep_reg = Signal(4, name="h_ep")
        ack_owed = Signal(name="h_ack_owed")        # host received the device's packet and will/may deliver an ACK
        fack_ok = Signal(name="h_fack_ok")          # a broadcast ACK for somebody else's IN data may appear
        ev = self.ev
        can_tok = (ph == PH_IDLE) | (ph == PH_TOK)
        tok_ev = Signal(name="e_token")
        oth_ev = Signal(name="e_other")
        rfr_ev = Signal(name="e_rfr")
        ack_ev = Signal(name="e_ack")
        fack_ev = Signal(name="e_fack")
        m.d.comb += [
            tok_ev.eq((ev == EV_TOKEN) & can_tok),
            oth_ev.eq((ev == EV_OTHER) & can_tok),
            rfr_ev.eq((ev == EV_RFR) & (ph == PH_TOK)),
            ack_ev.eq((ev == EV_ACK) & (ph == PH_IDLE) & ack_owed),
            fack_ev.eq(self.fack & (ev == EV_NONE) & (ph == PH_IDLE) & fack_ok),
        ]
        newpid = Signal(4, name="e_newpid")
        with m.Switch(self.t_pid):
            for i, p in enumerate([PID_IN, PID_OUT, PID_SETUP, PID_PING]):
                with m.Case(i):
                    m.d.comb += newpid.eq(p)
        m.d.comb += [
            tok.pid.eq(Mux(tok_ev, newpid, Mux(oth_ev, 0, pid_reg))),
            tok.endpoint.eq(Mux(tok_ev, self.t_ep, ep_reg)),
            tok.new_token.eq(tok_ev),
            tok.ready_for_response.eq(rfr_ev),
            tok.is_in.eq(tok.pid == PID_IN),
            tok.is_out.eq(tok.pid == PID_OUT),
            tok.is_setup.eq(tok.pid == PID_SETUP),
            tok.is_ping.eq(tok.pid == PID_PING),
            hs_in.ack.eq(ack_ev | fack_ev),
        ]
        # IN token for our endpoint is being answered now
        itr = Signal(name="g_itr")
        m.d.comb += itr.eq(rfr_ev & (pid_reg == PID_IN) & (ep_reg == ep))

        # ---- packet framing on the tx stream
        in_packet = Signal(name="g_in_packet")
        p_pos = Signal(range(maxlen + 2), name="g_p_pos")
        p_pid = Signal(2, name="g_p_pid")
        pkt_start = Signal(name="g_pkt_start")
        is_zlp = Signal(name="g_is_zlp")
        pkt_active = Signal(name="g_pkt_active")
        byte_xfer = Signal(name="g_byte_xfer")
        pkt_end = Signal(name="g_pkt_end")
        pos = Signal(range(maxlen + 2), name="g_pos")
        cur_pid = Signal(2, name="g_cur_pid")
        p_len = Signal(range(maxlen + 3), name="g_p_len")     # length of the packet ending now
        m.d.comb += [
            pkt_start.eq(tx.valid & ~in_packet),
            is_zlp.eq(pkt_start & tx.last & ~tx.first),
            pkt_active.eq((pkt_start & ~is_zlp) | in_packet),
            byte_xfer.eq(pkt_active & tx.valid & tx.ready),
            pkt_end.eq(is_zlp | (byte_xfer & tx.last)),
            pos.eq(Mux(pkt_start, 0, p_pos)),
            cur_pid.eq(Mux(pkt_start, tx_pid, p_pid)),
            p_len.eq(Mux(is_zlp, 0, pos + 1)),
        ]
        with m.If(pkt_start):
            m.d.usb += p_pid.eq(tx_pid)
        hold = Signal(name="h_ready_hold")
        m.d.usb += hold.eq(pkt_start)
        m.d.comb += tx.ready.eq(self.tx_ready & in_packet & ~hold)
        with m.If(pkt_end):
            m.d.usb += [in_packet.eq(0), p_pos.eq(0)]
        with m.Elif(pkt_active):
            m.d.usb += in_packet.eq(1)
            with m.If(byte_xfer & (pos != maxlen + 1)):
                m.d.usb += p_pos.eq(pos + 1)

        # ---- bus phase automaton
        with m.If(tok_ev):
            m.d.usb += [ph.eq(PH_TOK), pid_reg.eq(newpid), ep_reg.eq(self.t_ep), ack_owed.eq(0), fack_ok.eq(0)]
        with m.Elif(oth_ev):
            m.d.usb += [ph.eq(PH_IDLE), pid_reg.eq(0), ack_owed.eq(0), fack_ok.eq(1)]
        with m.Elif(rfr_ev):
            m.d.usb += ph.eq(PH_RESP)
        with m.Elif(ph == PH_RESP):
            m.d.usb += ph.eq(Mux(pkt_active & ~pkt_end, PH_DEVTX, PH_IDLE))
            with m.If((pid_reg == PID_IN) & (ep_reg != ep)):
                m.d.usb += fack_ok.eq(1)
        with m.Elif(ph == PH_DEVTX):
            with m.If(pkt_end):
                m.d.usb += ph.eq(PH_IDLE)
        with m.If(ack_ev):
            m.d.usb += ack_owed.eq(0)
        with m.If(fack_ev):
            m.d.usb += fack_ok.eq(0)
        with m.If(pkt_end):
            m.d.usb += ack_owed.eq(self.rx_ok)

        # ---- host ghost: expected toggle; device-view ghost: ACKs the device was given
        h_exp = Signal(name="g_h_exp")
        acceptable = Signal(name="g_acceptable")
        host_accept = Signal(name="g_host_accept")
        m.d.comb += [
            acceptable.eq(cur_pid == Cat(h_exp, Const(0, 1))),
            host_accept.eq(pkt_end & self.rx_ok & acceptable),
        ]
        with m.If(host_accept):
            m.d.usb += h_exp.eq(~h_exp)
        d_exp = Signal(name="g_d_exp")               # PID the next *new* packet must carry
        prev_valid = Signal(name="g_prev_valid")     # a packet was sent and not (visibly) acknowledged: next is a retry
        prev_acc = Signal(name="g_prev_acc")         # ... and the host did take it (ACK lost)
        with m.If(pkt_end):
            m.d.usb += [prev_valid.eq(1), prev_acc.eq(host_accept | (prev_valid & prev_acc))]
        with m.If(ack_ev):
            m.d.usb += [prev_valid.eq(0), prev_acc.eq(0), d_exp.eq(~d_exp)]
        itr_d = Signal(name="g_itr_d")
        m.d.usb += itr_d.eq(itr)
        # scenario predicate: a broadcast ACK for another device's data arrived while our packet was unacknowledged
        fack_taken_r = Signal(name="g_fack_taken")
        with m.If(fack_ev & prev_valid):
            m.d.usb += fack_taken_r.eq(1)
        fack_taken = Signal(name="g_fack_taken_now")
        m.d.comb += fack_taken.eq(fack_taken_r | (fack_ev & prev_valid))
        return SimpleNamespace(**{k: v for k, v in locals().items() if isinstance(v, Value)})
