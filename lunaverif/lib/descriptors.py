"""Shared pieces for the GET_DESCRIPTOR properties (C09 USB2, C48 USB3).

* concrete descriptor collections with distinctive byte values (ROM contents are elaboration-time
  configuration and are enumerated, not symbolic);
* `response_monitor`: a ghost that checks ONE response of a USB2 descriptor handler (a data packet, a
  zero-length packet or a stall) against the statement, given the request (value, wLength) and the
  continuation offset.  The expectation is computed from the descriptor bytes by table lookup,
  n = min(wLength - offset, max packet size, descriptor length - offset); nothing of the handlers'
  ROM layout or counters is used.
"""
from amaranth import *


def _blob(tag, n):
    """n distinctive bytes: never 0, different for different (tag, position)"""
    return bytes((((tag * 53 + 17) + 29 * i) % 251) + 1 for i in range(n))


def make_collection(kind, mps, runtime=False):
    """returns (DeviceDescriptorCollection, [(wValue, bytes)]) -- luna/usb_protocol imported lazily"""
    from usb_protocol.emitters import DeviceDescriptorCollection
    c = DeviceDescriptorCollection(automatic_language_descriptor=False)
    descs = []

    def add(t, i, data):
        c.add_descriptor(data, index=i, descriptor_type=t)
        descs.append(((t << 8) | i, bytes(data)))

    if kind == "sparse":
        # non-consecutive string indices {0, 2, 5}, a type-15 descriptor, lengths exactly mps and 2*mps
        add(1, 0, _blob(1, mps))                    # exactly one packet  -> ZLP when wLength > mps
        add(2, 0, _blob(2, 2 * mps))                # exactly two packets
        add(3, 0, bytes([6, 3, 0x09, 0x04, 0x07, 0x04]))   # language descriptor (two languages)
        add(3, 5, _blob(5, mps + 3))                # inserted out of index order on purpose
        add(3, 2, _blob(4, 5))
        add(15, 1, _blob(6, 3 * mps))         # three packets exactly, length not a power of two
    elif kind == "dense":
        # consecutive indices only (no index map in the block ROM), includes type 0 and a 1-byte descriptor
        add(0, 0, _blob(7, 1))
        add(1, 0, _blob(8, 2 * mps + 3))
        add(2, 1, _blob(10, mps + 1))               # inserted out of index order on purpose
        add(2, 0, _blob(9, mps - 1))
        add(3, 0, bytes([4, 3, 0x09, 0x04]))
        add(3, 1, _blob(11, mps))
    elif kind == "pow2":
        # the LONGEST descriptor is exactly 2*mps bytes (a power of two for mps = 8/16/32/64): the one-past-the-end
        # continuation position equals a power of two (position register width; seeded change C09c)
        add(1, 0, _blob(1, mps))
        add(2, 0, _blob(2, 2 * mps))
        add(3, 0, bytes([4, 3, 0x09, 0x04]))
        add(3, 1, _blob(5, mps + 3))
    elif kind == "suite":
        # the collection of tests/test_usb2_descriptor.py (device/config/strings, index 0xfe, HID type 0x21)
        from usb_protocol.emitters.descriptors.standard import get_string_descriptor
        c = DeviceDescriptorCollection()
        with c.DeviceDescriptor() as d:
            d.bcdUSB = 2.00
            d.idVendor = 0x1234
            d.idProduct = 0x4567
            d.iManufacturer = "Manufacturer"
            d.iProduct = "Product"
            d.iSerialNumber = "ThisSerialNumberIsResultsInADescriptorLongerThan64Bytes"
            d.bNumConfigurations = 1
            with c.ConfigurationDescriptor() as cfg:
                cfg.bmAttributes = 0xC0
                cfg.bMaxPower = 50
                with cfg.InterfaceDescriptor() as i:
                    i.bInterfaceNumber = 0
                    i.bInterfaceClass = 0x02
                    i.bInterfaceSubclass = 0x02
                    i.bInterfaceProtocol = 0x01
                    with i.EndpointDescriptor() as e:
                        e.bEndpointAddress = 0x81
                        e.bmAttributes = 0x03
                        e.wMaxPacketSize = 64
                        e.bInterval = 11
        c.add_descriptor(get_string_descriptor("nonconsecutive"), index=0xfe)
        c.add_descriptor(b'\x09\x21\x01\x01\x00\x01\x22\x00\x32')
        for t, i, raw in c:
            descs.append(((int(t) << 8) | i, bytes(raw)))
    else:
        raise ValueError(kind)
    if runtime:
        from luna.gateware.usb.usb2.descriptor import USBDescriptorStreamGenerator
        data = _blob(12, mps + 2)
        c.add_descriptor((lambda data=data: USBDescriptorStreamGenerator(data)), index=3, descriptor_type=3)
        descs.append(((3 << 8) | 3, data))
    return c, descs


class Resp:
    pass


def response_monitor(m, h, *, start, value, wlength, offset, tx, stall, descs, mps, lat=6):
    """Checks every response that follows a `start` (handler level) / data-stage IN token (request level).

    start/value/wlength/offset: request strobe and parameters (sampled in the start cycle)
    tx: the USBInStreamInterface carrying the answer (tx.ready is driven by the caller), stall: stall strobe.
    Registers viol_*/cover_* on harness h (clocked in `usb`).  Returns an object with status signals.
    """
    nd = len(descs)
    maxl = max(len(b) for _, b in descs)
    r = Resp()
    IDLE, WAIT, DATA = 0, 1, 2
    st = Signal(2, name="rm_state")
    cnt = Signal(range(mps + 2), name="rm_cnt")
    wait = Signal(range(lat + 2), name="rm_wait")
    g_n = Signal(range(mps + 1), name="rm_n")
    g_off = Signal(len(offset), name="rm_off")
    g_sel = Signal(range(nd + 1), name="rm_sel")
    g_ex = Signal(name="rm_exists")
    g_len = Signal(16, name="rm_len")
    g_w = Signal(16, name="rm_w")
    g_val = Signal(16, name="rm_val")
    plen = Signal(range(mps + 3), name="rm_plen")
    served = Signal(name="rm_served")
    h.obs("rm_state", st); h.obs("rm_cnt", cnt); h.obs("rm_n", g_n)

    sel_now = Signal(range(nd + 1), name="rm_sel_now")
    ex_now = Signal(name="rm_ex_now")
    with m.Switch(value):
        for i, (v, b) in enumerate(descs):
            with m.Case(v):
                m.d.comb += [sel_now.eq(i), ex_now.eq(1)]
    len_now = Signal(16, name="rm_len_now")
    m.d.comb += len_now.eq(Array([Const(len(b), 16) for _, b in descs] + [Const(0, 16)])[sel_now])
    by_w = Signal(17, name="rm_by_w")
    by_l = Signal(17, name="rm_by_l")
    n_now = Signal(range(mps + 1), name="rm_n_now")
    m.d.comb += [by_w.eq(wlength - offset), by_l.eq(len_now - offset)]
    with m.If((by_w <= by_l) & (by_w <= mps)):
        m.d.comb += n_now.eq(by_w)
    with m.Elif(by_l <= mps):
        m.d.comb += n_now.eq(by_l)
    with m.Else():
        m.d.comb += n_now.eq(mps)
    # the request is one a host can make: something is still owed (offset < wLength) and the offset does not
    # lie beyond the descriptor (the previous packets were full)
    r.legal = Signal(name="rm_legal")
    m.d.comb += r.legal.eq((offset < wlength) & (~ex_now | (offset <= len_now)))

    pos = Signal(range(maxl + mps + 2), name="rm_pos")
    m.d.comb += pos.eq(g_off + cnt)
    rows = [Array([Const(x, 8) for x in b] + [Const(0, 8)]) for _, b in descs] + [Array([Const(0, 8)])]
    exp = Signal(8, name="rm_exp")
    with m.Switch(g_sel):
        for i, row in enumerate(rows):
            with m.Case(i):
                m.d.comb += exp.eq(row[pos])

    v = {n: h.viol(n) for n in ("payload", "first", "last", "gap", "zlp", "stall_exists", "data_nonexistent",
                                "no_response", "spurious", "too_long")}
    c = {n: h.cover(n) for n in ("full_packet", "short_packet", "zlp", "stall", "continuation", "backpressure",
                                 "second_request", "exact_multiple_zlp", "cut_by_wlength", "last_stalled")}
    r.idle = Signal(name="rm_idle")
    r.done_data = Signal(name="rm_done_data")
    r.done_zlp = Signal(name="rm_done_zlp")
    r.done_stall = Signal(name="rm_done_stall")
    r.done_bad = Signal(name="rm_done_bad")
    r.n = g_n
    r.state = st
    m.d.comb += r.idle.eq(st == IDLE)

    data_cycle = Signal(name="rm_data_cycle")
    m.d.comb += data_cycle.eq(((st == DATA) | ((st == WAIT) & g_ex & (g_n != 0) & ~stall)) & tx.valid)
    last_exp = cnt == (g_n - 1)
    m.d.comb += [
        v["payload"].eq(data_cycle & (tx.payload != exp)),
        v["first"].eq(data_cycle & (tx.first != (cnt == 0))),
        v["last"].eq(data_cycle & (tx.last != last_exp)),
        v["gap"].eq((st == DATA) & ~tx.valid),
        v["too_long"].eq(tx.valid & tx.ready & (plen >= mps) & ~((st == WAIT) & (g_n == 0))),
    ]
    with m.If(tx.valid & tx.ready):
        m.d.usb += plen.eq(Mux(plen > mps, plen, plen + 1))

    with m.Switch(st):
        with m.Case(IDLE):
            m.d.comb += v["spurious"].eq(tx.valid | (stall & ~start))
            with m.If(start):
                m.d.usb += [g_off.eq(offset), g_sel.eq(sel_now), g_ex.eq(ex_now), g_len.eq(len_now), g_w.eq(wlength),
                            g_val.eq(value), g_n.eq(n_now), cnt.eq(0), wait.eq(0), plen.eq(0)]
                m.d.comb += c["second_request"].eq(served)
                with m.If(stall):
                    m.d.comb += [v["stall_exists"].eq(ex_now), r.done_stall.eq(1)]
                with m.Else():
                    m.d.usb += st.eq(WAIT)
        with m.Case(WAIT):
            with m.If(stall):
                m.d.comb += [v["stall_exists"].eq(g_ex), r.done_stall.eq(1), v["data_nonexistent"].eq(tx.valid)]
                m.d.usb += st.eq(IDLE)
            with m.Elif(tx.valid):
                with m.If(~g_ex):
                    m.d.comb += [v["data_nonexistent"].eq(1), r.done_bad.eq(1)]
                    m.d.usb += st.eq(IDLE)
                with m.Elif(g_n == 0):
                    m.d.comb += [v["zlp"].eq(~(tx.last & ~tx.first)), r.done_zlp.eq(1)]
                    m.d.usb += st.eq(IDLE)
                with m.Else():
                    m.d.usb += st.eq(DATA)
                    with m.If(tx.ready):
                        m.d.usb += cnt.eq(1)
                        with m.If(g_n == 1):
                            m.d.comb += r.done_data.eq(1)
                            m.d.usb += st.eq(IDLE)
            with m.Else():
                m.d.usb += wait.eq(wait + 1)
                with m.If(wait == lat - 1):
                    m.d.comb += [v["no_response"].eq(1), r.done_bad.eq(1)]
                    m.d.usb += st.eq(IDLE)
        with m.Case(DATA):
            with m.If(stall):
                m.d.comb += v["stall_exists"].eq(1)
            with m.If(tx.valid & tx.ready):
                m.d.usb += cnt.eq(cnt + 1)
                with m.If(last_exp):
                    m.d.comb += r.done_data.eq(1)
                    m.d.usb += st.eq(IDLE)
    with m.If(r.done_data | r.done_zlp | r.done_stall):
        m.d.usb += served.eq(1)

    m.d.comb += [
        c["full_packet"].eq(r.done_data & (g_n == mps)),
        c["short_packet"].eq(r.done_data & (g_n != mps)),
        c["zlp"].eq(r.done_zlp & ~v["zlp"]),
        c["stall"].eq(r.done_stall & ~v["stall_exists"]),
        c["continuation"].eq(r.done_data & (g_off != 0)),
        c["backpressure"].eq((st == DATA) & ~tx.ready & (cnt != 0)),
        c["exact_multiple_zlp"].eq(r.done_zlp & (g_off != 0) & (g_off == g_len)),
        c["cut_by_wlength"].eq(r.done_data & (g_n != mps) & ((g_off + g_n) == g_w) & ((g_off + g_n) != g_len)),
        c["last_stalled"].eq((st == DATA) & ~tx.ready & last_exp),
    ]
    r.g_off, r.g_w, r.g_val, r.g_ex, r.g_len = g_off, g_w, g_val, g_ex, g_len
    r.v, r.c = v, c
    return r
