"""Helpers shared by the peripheral-interface properties (C49-C53).

The translator recognises clock/reset ports by the suffixes `_clk`/`_rst`; Amaranth names the
default domain's signals plain `clk`/`rst`.  Classes living in "sync" are therefore instantiated
through a DomainRenamer into the domain VS ("vsync"): the class and its logic are unchanged, only
the name of the clock domain differs.
"""
from amaranth import DomainRenamer

VS = "vsync"


def in_vsync(elaboratable):
    return DomainRenamer({"sync": VS})(elaboratable)
