"""Slotted symbolic USB host (byte level, over a UTMI receive interface).

Time is cut into fixed-length slots.  In slot i a *constant* (same in every clock step) symbolic record chooses the
transaction: kind, endpoint, address, 8 data bytes, flags.  The solver therefore still quantifies over all sequences
of <= N transactions and all their data, while the cycle-level framing inside a slot is concrete, which keeps deep
unrollings cheap.  CRC5/CRC16 of host packets are computed with the repo's own step functions (shared definition;
C30 proves these equal the USB standard), every stage assigned to a named Signal.

Slot timeline (t = position in slot):
  t=1..4   token  (rx_active, PID, 2 bytes)            kinds SETUP / IN / OUT / SOF / PING
  t=1..2   lone handshake ACK                         kind HSK
  t=7..    DATA packet of SETUP (8 bytes) or OUT (olen bytes), CRC optionally corrupted
  t=ACK_T  host ACK of the device's IN data (kind IN, flag=1, only if the device sent a data packet in this slot)
The device transmits with tx_ready = 1 (every tx_valid cycle is one accepted byte).
"""
from amaranth import *
from amaranth.hdl import Array

KIND_NONE, KIND_SETUP, KIND_IN, KIND_OUT, KIND_SOF, KIND_HSK, KIND_PING = 0, 1, 2, 3, 4, 5, 6
KIND_SETUP_TOKEN = 7      # a SETUP token whose DATA0 packet never appears (transaction aborted / data lost before SYNC)


class SlottedHost:
    def __init__(self, h, nslots, slot_len=32, ack_t=25, max_out=2, prefix="s", ep_bits=2, share=None):
        self.h, self.n, self.slot_len, self.ack_t, self.max_out = h, nslots, slot_len, ack_t, max_out
        self.ep_bits = ep_bits
        if share is not None:
            # second script driven by the same symbolic choices (self-composition)
            self.kind, self.ep, self.addr, self.data = share.kind, share.ep, share.addr, share.data
            self.flag, self.dpid, self.olen = share.flag, share.dpid, share.olen
        else:
            self.kind = [h.inp(f"{prefix}{i}_kind", 3, const=True) for i in range(nslots)]
            self.ep = [h.inp(f"{prefix}{i}_ep", ep_bits, const=True) for i in range(nslots)]
            self.addr = [h.inp(f"{prefix}{i}_addr", 7, const=True) for i in range(nslots)]
            self.data = [h.inp(f"{prefix}{i}_data", 64, const=True) for i in range(nslots)]
            self.flag = [h.inp(f"{prefix}{i}_flag", 1, const=True) for i in range(nslots)]   # IN: host ACKs; SETUP/OUT: corrupt CRC
            self.dpid = [h.inp(f"{prefix}{i}_dpid", 1, const=True) for i in range(nslots)]   # OUT: 0 = DATA0, 1 = DATA1
            self.olen = [h.inp(f"{prefix}{i}_olen", (max_out + 1).bit_length(), const=True) for i in range(nslots)]
        # current-slot view (driven in build)
        self.t = Signal(range(slot_len), name=f"{prefix}_t")
        self.slot = Signal(range(nslots + 1), name=f"{prefix}_slot")
        self.cur_kind = Signal(3, name=f"{prefix}_cur_kind")
        self.cur_ep = Signal(ep_bits, name=f"{prefix}_cur_ep")
        self.cur_addr = Signal(7, name=f"{prefix}_cur_addr")
        self.cur_data = Signal(64, name=f"{prefix}_cur_data")
        self.cur_flag = Signal(name=f"{prefix}_cur_flag")
        self.cur_dpid = Signal(name=f"{prefix}_cur_dpid")
        self.cur_olen = Signal(self.olen[0].shape(), name=f"{prefix}_cur_olen")
        self.done = Signal(name=f"{prefix}_done")          # all slots played
        self.slot_end = Signal(name=f"{prefix}_slot_end")  # last cycle of a slot
        # host packets on the wire
        self.rx_active = Signal(name=f"{prefix}_rx_active")
        self.rx_valid = Signal(name=f"{prefix}_rx_valid")
        self.rx_data = Signal(8, name=f"{prefix}_rx_data")
        self.legal = Signal(name=f"{prefix}_legal")        # choice record is within the modelled range
        self.prefix = prefix

    def build(self, m, domain, mute=None):
        """add the slot counter and the packet script; `mute` (1-bit Value) silences the host in the current slot"""
        from luna.gateware.usb.usb2.packet import USBTokenDetector, USBDataPacketCRC
        n, L, p = self.n, self.slot_len, self.prefix
        t, slot = self.t, self.slot
        m.d.comb += [self.done.eq(slot == n), self.slot_end.eq(t == L - 1)]
        with m.If(t == L - 1):
            m.d[domain] += t.eq(0)
            with m.If(slot != n):
                m.d[domain] += slot.eq(slot + 1)
        with m.Else():
            m.d[domain] += t.eq(t + 1)
        for cur, lst in ((self.cur_kind, self.kind), (self.cur_ep, self.ep), (self.cur_addr, self.addr),
                         (self.cur_data, self.data), (self.cur_flag, self.flag), (self.cur_dpid, self.dpid),
                         (self.cur_olen, self.olen)):
            with m.Switch(slot):
                for i in range(n):
                    with m.Case(i):
                        m.d.comb += cur.eq(lst[i])
        legal = Const(1)
        for i in range(n):
            legal = legal & (self.kind[i] <= KIND_SETUP_TOKEN) & (self.olen[i] <= self.max_out)
        m.d.comb += self.legal.eq(legal)

        # token fields and CRCs (repo's own functions, staged)
        f11 = Signal(11, name=f"{p}_f11")
        with m.If(self.cur_kind == KIND_SOF):
            m.d.comb += f11.eq(self.cur_data[0:11])
        with m.Else():
            m.d.comb += f11.eq(Cat(self.cur_addr, self.cur_ep))
        c5 = Signal(5, name=f"{p}_crc5")
        m.d.comb += c5.eq(USBTokenDetector._generate_crc_for_token(f11))
        crcgen = USBDataPacketCRC()
        by = [self.cur_data[8 * j:8 * j + 8] for j in range(8)]
        stages = [Const(0xFFFF, 16)]
        for j in range(8):
            st = Signal(16, name=f"{p}_crc16_{j}")
            m.d.comb += st.eq(crcgen._generate_next_crc(stages[-1], by[j]))
            stages.append(st)
        wires = []
        for j in range(9):
            w = Signal(16, name=f"{p}_crc16w_{j}")
            m.d.comb += w.eq(~stages[j][::-1])
            wires.append(w)
        tok_pid = Signal(8, name=f"{p}_tokpid")
        with m.Switch(self.cur_kind):
            with m.Case(KIND_SETUP, KIND_SETUP_TOKEN):
                m.d.comb += tok_pid.eq(0x2D)
            with m.Case(KIND_IN):
                m.d.comb += tok_pid.eq(0x69)
            with m.Case(KIND_OUT):
                m.d.comb += tok_pid.eq(0xE1)
            with m.Case(KIND_SOF):
                m.d.comb += tok_pid.eq(0xA5)
            with m.Case(KIND_PING):
                m.d.comb += tok_pid.eq(0xB4)
        is_tok = (self.cur_kind == KIND_SETUP) | (self.cur_kind == KIND_IN) | (self.cur_kind == KIND_OUT) | \
                 (self.cur_kind == KIND_SOF) | (self.cur_kind == KIND_PING) | (self.cur_kind == KIND_SETUP_TOKEN)
        a, v, d = self.rx_active, self.rx_valid, self.rx_data
        # data phase length
        dlen = Signal(4, name=f"{p}_dlen")
        m.d.comb += dlen.eq(Mux(self.cur_kind == KIND_SETUP, 8, self.cur_olen))
        wire = Signal(16, name=f"{p}_wire")
        with m.Switch(dlen):
            for j in range(9):
                with m.Case(j):
                    m.d.comb += wire.eq(wires[j])
        has_data = (self.cur_kind == KIND_SETUP) | (self.cur_kind == KIND_OUT)
        corrupt = has_data & self.cur_flag
        active = ~self.done & ~(mute if mute is not None else Const(0))
        with m.If(active):
            with m.If(is_tok):
                with m.Switch(t):
                    with m.Case(1):
                        m.d.comb += a.eq(1)
                    with m.Case(2):
                        m.d.comb += [a.eq(1), v.eq(1), d.eq(tok_pid)]
                    with m.Case(3):
                        m.d.comb += [a.eq(1), v.eq(1), d.eq(f11[0:8])]
                    with m.Case(4):
                        # SOF slots use `flag` to corrupt the token's CRC5
                        m.d.comb += [a.eq(1), v.eq(1),
                                     d.eq(Cat(f11[8:11], c5 ^ ((self.cur_kind == KIND_SOF) & self.cur_flag)))]
            with m.If(self.cur_kind == KIND_HSK):
                with m.Switch(t):
                    with m.Case(1):
                        m.d.comb += a.eq(1)
                    with m.Case(2):
                        m.d.comb += [a.eq(1), v.eq(1), d.eq(0xD2)]
            with m.If(has_data):
                with m.If(t == 7):
                    m.d.comb += a.eq(1)
                with m.If(t == 8):
                    m.d.comb += [a.eq(1), v.eq(1),
                                 d.eq(Mux((self.cur_kind == KIND_OUT) & self.cur_dpid, 0x4B, 0xC3))]
                for j in range(8):
                    with m.If((t == 9 + j) & (j < dlen)):
                        m.d.comb += [a.eq(1), v.eq(1), d.eq(by[j])]
                with m.If(t == 9 + dlen):
                    m.d.comb += [a.eq(1), v.eq(1), d.eq(wire[0:8])]
                with m.If(t == 10 + dlen):
                    m.d.comb += [a.eq(1), v.eq(1), d.eq(wire[8:16] ^ corrupt)]
        return self

    def add_in_ack(self, m, domain, saw_data):
        """host ACK of the device's data packet in IN slots (flag=1), at t=ack_t; saw_data: device sent DATAx in this slot"""
        t = self.t
        with m.If(~self.done & (self.cur_kind == KIND_IN) & self.cur_flag & saw_data):
            with m.If(t == self.ack_t):
                m.d.comb += self.rx_active.eq(1)
            with m.If(t == self.ack_t + 1):
                m.d.comb += [self.rx_active.eq(1), self.rx_valid.eq(1), self.rx_data.eq(0xD2)]


class TxSpy:
    """records what the device transmits in the current slot (tx_ready = 1): first byte, byte count, first bytes"""

    def __init__(self, m, domain, host, tx_valid, tx_data, nbytes=11, name="txspy", tx_ready=None):
        tx_active = tx_valid
        if tx_ready is not None:
            tx_valid = tx_valid & tx_ready       # count accepted bytes only
        self.pid = Signal(8, name=f"{name}_pid")
        self.count = Signal(range(nbytes + 2), name=f"{name}_count")
        self.bytes = [Signal(8, name=f"{name}_b{i}") for i in range(nbytes)]
        self.packets = Signal(2, name=f"{name}_packets")     # transmissions started in this slot (saturating)
        prev = Signal(name=f"{name}_prev")
        m.d[domain] += prev.eq(tx_active)
        with m.If(host.slot_end):
            m.d[domain] += [self.count.eq(0), self.packets.eq(0), self.pid.eq(0)]
            m.d[domain] += [b.eq(0) for b in self.bytes]       # no stale bytes of an earlier slot's longer packet
        with m.Elif(tx_valid):
            with m.If(self.count <= nbytes):
                m.d[domain] += self.count.eq(self.count + 1)
            with m.If(self.count == 0):
                m.d[domain] += self.pid.eq(tx_data)
            for i in range(nbytes):
                with m.If(self.count == i + 1):
                    m.d[domain] += self.bytes[i].eq(tx_data)
        with m.If(~host.slot_end & tx_active & ~prev & (self.packets != 3)):
            m.d[domain] += self.packets.eq(self.packets + 1)
        self.is_data = (self.count != 0) & (self.pid[0:2] == 0b11)
        self.is_hsk = (self.count != 0) & (self.pid[0:2] == 0b10)


# ---------------------------------------------------------------- case splitting over the transaction kinds
#
# With symbolic `kind` / `flag` choices the cycle-level framing of a slot is a mux over all packet shapes and the
# CRC-corruption bit is XORed into the host's CRC; z3 then no longer folds the framing and the shared-definition CRCs
# (measured on the C07 harness, 3 slots, K=98: one assertion 195 s with the flags symbolic and >300 s with kinds
# symbolic, against 0.2 s with both pinned).  Device-level checks therefore enumerate the per-slot (kind, flag)
# choices as separate solver queries ("cubes"); address, endpoint, data bytes, payload length, PIDs stay symbolic in
# every cube, so the union of the cubes is exactly the symbolic script space restricted to the listed options.

SLOT_OPTIONS = {
    "S": dict(kind=KIND_SETUP, flag=0),    # SETUP + valid DATA0
    "s": dict(kind=KIND_SETUP, flag=1),    # SETUP + DATA0 with corrupted CRC16
    "I": dict(kind=KIND_IN, flag=1),       # IN, host ACKs the device's data
    "i": dict(kind=KIND_IN, flag=0),       # IN, host's ACK is lost / withheld
    "O": dict(kind=KIND_OUT, flag=0),      # OUT + valid DATAx (symbolic DATA0/DATA1)
    "o": dict(kind=KIND_OUT, flag=1),      # OUT + DATAx with corrupted CRC16
    "P": dict(kind=KIND_OUT, flag=0, dpid=1),   # OUT + valid DATA1 (control status stage)
    "Q": dict(kind=KIND_OUT, flag=0, dpid=0),   # OUT + valid DATA0
    "N": dict(kind=KIND_NONE, flag=0),     # idle slot
    "G": dict(kind=KIND_PING, flag=0),     # PING token (no data phase)
    "T": dict(kind=KIND_SETUP_TOKEN, flag=0),   # SETUP token without its data packet
    "F": dict(kind=KIND_SOF, flag=0),      # start of frame
    "f": dict(kind=KIND_SOF, flag=1),      # start of frame with corrupted CRC5
}


def slot_cubes(nslots, options, first=None, prefix="s", extra=None, defaults=None, table=None):
    """yield (name, layer) for every combination of per-slot options (`first` optionally restricts slot 0);
    `defaults` = per-slot input suffix -> value pinned when the option does not set it; `table` adds/overrides options"""
    import itertools
    opts = dict(SLOT_OPTIONS)
    if table:
        opts.update(table)
    pools = [list(first) if (first and i == 0) else list(options) for i in range(nslots)]
    for combo in itertools.product(*pools):
        layer = {}
        for i, o in enumerate(combo):
            for key, val in (defaults or {}).items():
                layer[f"{prefix}{i}_{key}"] = val
            for key, val in opts[o].items():
                layer[f"{prefix}{i}_{key}"] = val
        if extra:
            layer.update(extra)
        yield "".join(combo), layer
