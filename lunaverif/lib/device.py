"""Construction of small real USBDevice instances for device-level harnesses (plain UTMI bus: full speed,
12 MHz timing constants)."""
from amaranth import *


def small_descriptors():
    from usb_protocol.emitters import DeviceDescriptorCollection
    d = DeviceDescriptorCollection()
    with d.DeviceDescriptor() as dd:
        dd.idVendor = 0x16d0
        dd.idProduct = 0x0f3b
        dd.iManufacturer = "L"
        dd.bNumConfigurations = 1
    with d.ConfigurationDescriptor() as c:
        with c.InterfaceDescriptor() as i:
            i.bInterfaceNumber = 0
    return d


def make_device(ep0_mps=8, in_ep=None, out_ep=None, std=True, extra_handlers=()):
    """returns (utmi, device, control_endpoint, dict of extra endpoints)"""
    from luna.gateware.interface.utmi import UTMIInterface
    from luna.gateware.usb.usb2.device import USBDevice
    from luna.gateware.usb.usb2.control import USBControlEndpoint
    utmi = UTMIInterface()
    dev = USBDevice(bus=utmi, handle_clocking=False)
    ep0 = USBControlEndpoint(utmi=utmi, max_packet_size=ep0_mps)
    if std:
        ep0.add_standard_request_handlers(small_descriptors())
    for hnd in extra_handlers:
        ep0.add_request_handler(hnd)
    dev.add_endpoint(ep0)
    eps = {}
    if in_ep is not None:
        from luna.gateware.usb.usb2.endpoints.stream import USBStreamInEndpoint
        number, mps = in_ep
        eps["in"] = USBStreamInEndpoint(endpoint_number=number, max_packet_size=mps)
        dev.add_endpoint(eps["in"])
    if out_ep is not None:
        from luna.gateware.usb.usb2.endpoints.stream import USBStreamOutEndpoint
        number, mps = out_ep
        eps["out"] = USBStreamOutEndpoint(endpoint_number=number, max_packet_size=mps)
        dev.add_endpoint(eps["out"])
    return utmi, dev, ep0, eps


def tie_device(m, utmi, dev, host, session_end=0):
    """normal operating conditions: connected, VBUS present, line idle (J), PHY always ready to transmit"""
    m.d.comb += [
        dev.connect.eq(1), dev.full_speed_only.eq(1),
        utmi.line_state.eq(0b01), utmi.session_end.eq(session_end), utmi.vbus_valid.eq(1), utmi.tx_ready.eq(1),
        utmi.rx_active.eq(host.rx_active), utmi.rx_valid.eq(host.rx_valid), utmi.rx_data.eq(host.rx_data),
    ]
