"""Shared SuperSpeed link-partner environment (`ss_partner`, DESIGN section 4).

Everything here is *environment / reference* logic for USB3 link-layer harnesses (clock domain "ss"):

* framing words (SHP/SDP/END/EDB/SLC/EPF symbol values from the USB 3 spec, table 6-1 -- not imported from luna);
* "shared CRC definition" helpers: the CRC16 / CRC32 / CRC5 values a partner must *produce* are computed by
  calling the repo's own step functions (HeaderPacketCRC._generate_next_crc, DataPacketPayloadCRC._generate_next_*,
  compute_usb_crc5) on symbolic data, every stage assigned to a named Signal (rule 6).  C30 proves those
  functions equal the standard definitions; sequential checks therefore never contain a CRC miter;
* header_words(): combinational header-packet builder from symbolic fields (4 words);
* link_command_word(): combinational link-command word builder;
* SSPacketSource: sequential partner transmitter producing a raw word stream (valid/data/ctrl) of header packets
  (optionally followed by a data packet payload) separated by free traffic, with free invalid ("gap") cycles
  everywhere, fully symbolic data and symbolic corruption masks on every CRC field;
* SSLinkCommandSource: sequential partner producing link commands (LCSTART + command word) with gaps and
  symbolic corruption.

luna is imported inside functions so that VERIF_REPO overrides work.
"""
from amaranth import *

DOMAIN = "ss"

# K symbols (USB 3.x table 6-1): value of the 8b data byte; ctrl bit = 1
SKP, SDP, EDB, SUB, COM, SHP, END, SLC, EPF = 0x3C, 0x5C, 0x7C, 0x9C, 0xBC, 0xFB, 0xFD, 0xFE, 0xF7


def word(*syms):
    """little-endian word of four K symbols -> (data, ctrl)"""
    assert len(syms) == 4
    d = 0
    for i, s in enumerate(syms):
        d |= s << (8 * i)
    return d, 0b1111


HPSTART = word(SHP, SHP, SHP, EPF)
DPPSTART = word(SDP, SDP, SDP, EPF)
DPPEND = word(END, END, END, EPF)
DPPABORT = word(EDB, EDB, EDB, EPF)
LCSTART = word(SLC, SLC, SLC, EPF)

# link command codes = bits [10:7] of the link command word (class, type); USB 3.x table 7-4
LGOOD, LCRD, LRTY, LBAD, LGO_U, LAU, LXU, LPMA, LUP, LDN = 0, 1, 2, 3, 4, 5, 6, 7, 8, 11
HP_TYPE_DATA = 8


# ------------------------------------------------------------------ shared CRC definition

def _crc16_unit():
    from luna.gateware.usb.usb3.link.crc import HeaderPacketCRC
    return HeaderPacketCRC()


def _crc32_unit():
    from luna.gateware.usb.usb3.link.crc import DataPacketPayloadCRC
    return DataPacketPayloadCRC()


def crc5_of(m, bits11, name):
    """CRC-5 of an 11-bit link control / link command field (repo's compute_usb_crc5), as a named Signal"""
    from luna.gateware.usb.usb3.link.crc import compute_usb_crc5
    out = Signal(5, name=name)
    m.d.comb += out.eq(compute_usb_crc5(bits11))
    return out


def crc16_next(m, state, data32, name):
    """one word through the repo's header CRC16 step; `state` is the raw register (init 0xFFFF)"""
    nxt = Signal(16, name=name)
    m.d.comb += nxt.eq(_crc16_unit()._generate_next_crc(state, data32))
    return nxt


def crc16_out(m, state, name):
    """raw CRC16 register -> field value as transmitted (inverted, bit-reversed)"""
    out = Signal(16, name=name)
    m.d.comb += out.eq(~state[::-1])
    return out


def crc32_next(m, state, data32, nbytes, name):
    """`nbytes` (1..4) low bytes of data32 through the repo's payload CRC32 step; raw register (init all ones)"""
    u = _crc32_unit()
    fn = {4: u._generate_next_full_crc, 3: u._generate_next_3B_crc,
          2: u._generate_next_2B_crc, 1: u._generate_next_1B_crc}[nbytes]
    nxt = Signal(32, name=name)
    m.d.comb += nxt.eq(fn(state, data32[0:8 * nbytes]))
    return nxt


def crc32_out(m, state, name):
    out = Signal(32, name=name)
    m.d.comb += out.eq(~state[::-1])
    return out


def header_words(m, name, dw0, dw1, dw2, lcw, mask16=0, mask5=0):
    """Combinational header packet (without HPSTART): returns [dw0, dw1, dw2, dw3] where
    dw3 = crc16(dw0..dw2)^mask16 | lcw(11 bits: seq 3, reserved 3, hub depth 3, DL, DF) | crc5(lcw)^mask5.
    Every CRC stage is a named Signal."""
    st = Const(0xFFFF, 16)
    for i, w in enumerate((dw0, dw1, dw2)):
        st = crc16_next(m, st, w, f"{name}_crc16_s{i}")
    c16 = crc16_out(m, st, f"{name}_crc16")
    c5 = crc5_of(m, lcw, f"{name}_crc5")
    dw3 = Signal(32, name=f"{name}_dw3")
    m.d.comb += dw3.eq(Cat(c16 ^ mask16, lcw, c5 ^ mask5))
    return [dw0, dw1, dw2, dw3]


def link_command_word(m, name, command, subtype, mask=0, reserved=0):
    """Combinational link command word (the word following LCSTART): 11-bit command info (subtype 4, reserved 3,
    class/type 4) + CRC5, replicated twice; `mask` (32 bit) is XORed onto the word (corruption)."""
    info = Signal(11, name=f"{name}_info")
    sub = Const(subtype, 4) if isinstance(subtype, int) else subtype[0:4]
    cmd = Const(command, 4) if isinstance(command, int) else command[0:4]
    m.d.comb += info.eq(Cat(sub, Const(reserved, 3), cmd))
    c5 = crc5_of(m, info, f"{name}_crc5")
    half = Signal(16, name=f"{name}_half")
    m.d.comb += half.eq(Cat(info, c5))
    out = Signal(32, name=f"{name}_word")
    m.d.comb += out.eq(Cat(half, half) ^ mask)
    return out


# ------------------------------------------------------------------ sequential partner: header (+ data) packets

class SSPacketSource(Elaboratable):
    """Link partner transmitting header packets (optionally each followed by a data packet payload).

    Free inputs (registered on the harness `h` with `prefix`):
      gap    this cycle carries no word (valid = 0; data/ctrl are the free junk `w`/`wc`)
      w, wc  free data word / ctrl nibble: header DW0..2, payload bytes, idle traffic, junk in gap cycles
      lcw    link control word of DW3 (seq 3, reserved 3, hub depth 3, DL, DF)
      m16, m5, m32   corruption masks XORed onto CRC16 / CRC5 / CRC32 (0 = valid CRC)
      dpp    (with_dpp only) the header is followed immediately by DPPSTART + payload
    Stream semantics: IDLE traffic is a completely free word; when that free word happens to be a valid HPSTART the
    source commits to sending a header packet: DW0..DW2 free data (ctrl 0), DW3 with the running CRC16 of the
    words actually sent (repo step function, one stage per word, held in a register).  With `dpp`, DPPSTART
    follows, then DW1[31:16] payload bytes (free), the running CRC32 immediately after the last byte, END END END
    EPF immediately after the CRC, zero (IDL) fill to the word boundary, then IDLE traffic again.

    Ghost outputs (all combinational unless noted):
      valid/data/ctrl             the stream
      ev_hpstart                  HPSTART word presented (valid) this cycle
      ev_dw[i]                    header word i presented this cycle
      ev_dw3, hdr_ok_now          DW3 presented this cycle / its CRC fields are uncorrupted
      dw0,dw1,dw2 (registers)     header words sent (valid from the cycle after they were presented)
      cur_lcw (register)          link control word sent in DW3
      hdr_ok (register)           last completed header had valid CRC16 and CRC5
      ev_dppstart                 DPPSTART presented this cycle
      ev_pay, pay_n, pay_first    payload-bearing word presented, number of payload bytes in it (1..4)
      ev_crc_last                 the word carrying the final CRC32 byte is presented this cycle
      crc32_ok (register)         CRC32 of the current payload is uncorrupted (m32 latched at DPPSTART == 0)
      length (register)           data length of the current packet (from DW1)
      in_packet                   source is inside a header packet / payload (not IDLE)
    """
    S_IDLE, S_DW0, S_DW1, S_DW2, S_DW3, S_DPP, S_PAY, S_T1, S_T2 = range(9)

    def __init__(self, h, with_dpp=True, prefix="p_", max_len=1024):
        self.with_dpp = with_dpp
        self.max_len = max_len
        p = prefix
        self.gap = h.inp(p + "gap", 1)
        self.w = h.inp(p + "w", 32)
        self.wc = h.inp(p + "wc", 4)
        self.lcw = h.inp(p + "lcw", 11)
        self.m16 = h.inp(p + "m16", 16)
        self.m5 = h.inp(p + "m5", 5)
        if with_dpp:
            self.m32 = h.inp(p + "m32", 32)
            self.dpp = h.inp(p + "dpp", 1)
        self.a_len = h.assume(p + "len_legal") if with_dpp else None
        # stream
        self.valid = Signal(name=p + "valid")
        self.data = Signal(32, name=p + "data")
        self.ctrl = Signal(4, name=p + "ctrl")
        # ghost
        self.state = Signal(4, name=p + "state")
        self.ev_hpstart = Signal(name=p + "ev_hpstart")
        self.ev_dw = [Signal(name=p + f"ev_dw{i}") for i in range(3)]
        self.ev_dw3 = Signal(name=p + "ev_dw3")
        self.hdr_ok_now = Signal(name=p + "hdr_ok_now")
        self.dw = [Signal(32, name=p + f"dw{i}") for i in range(3)]
        self.cur_lcw = Signal(11, name=p + "cur_lcw")
        self.hdr_ok = Signal(name=p + "hdr_ok")
        self.ev_dppstart = Signal(name=p + "ev_dppstart")
        self.ev_pay = Signal(name=p + "ev_pay")
        self.pay_n = Signal(3, name=p + "pay_n")
        self.ev_crc_last = Signal(name=p + "ev_crc_last")
        self.crc32_ok = Signal(name=p + "crc32_ok")
        self.length = Signal(16, name=p + "length")
        self.in_packet = Signal(name=p + "in_packet")
        self.in_payload = Signal(name=p + "in_payload")
        self._p = p

    def elaborate(self, platform):
        m = Module()
        p = self._p
        st = self.state
        S = self
        go = Signal(name=p + "go")                  # a word is presented this cycle
        m.d.comb += [go.eq(~self.gap), self.valid.eq(go)]
        word = Signal(32, name=p + "word")
        wctrl = Signal(4, name=p + "wordctrl")
        m.d.comb += [self.data.eq(Mux(go, word, self.w)), self.ctrl.eq(Mux(go, wctrl, self.wc))]
        m.d.comb += [self.in_packet.eq(st != S.S_IDLE), self.in_payload.eq(st == S.S_PAY)]

        # running header CRC16 (raw register), one repo step per presented word
        c16 = Signal(16, name=p + "c16", init=0xFFFF)
        c16_next = crc16_next(m, c16, word, p + "c16_next")
        c16_field = crc16_out(m, c16, p + "c16_field")
        c5_field = crc5_of(m, self.lcw, p + "c5_field")

        if self.with_dpp:
            c32 = Signal(32, name=p + "c32", init=0xFFFFFFFF)
            c32_n = {n: crc32_next(m, c32, self.w, n, f"{p}c32_next{n}") for n in (1, 2, 3, 4)}
            c32_field = crc32_out(m, c32, p + "c32_field")                       # CRC of everything sent so far
            c32_field_n = {n: crc32_out(m, c32_n[n], f"{p}c32_field{n}") for n in (1, 2, 3)}
            m32 = Signal(32, name=p + "m32_l")        # corruption mask of the current packet
            rem = Signal(16, name=p + "rem")          # payload bytes still to send
            r = Signal(2, name=p + "r")               # payload bytes in the last payload word, mod 4
            want_dpp = Signal(name=p + "want_dpp")
            tail = Signal(64, name=p + "tail")        # crc(4) END END END EPF
            tailc = Const(0xF0, 8)
            m.d.comb += tail.eq(Cat(c32_field ^ m32, Const(DPPEND[0], 32)))
            m.d.comb += self.crc32_ok.eq(m32 == 0)

        with m.Switch(st):
            with m.Case(S.S_IDLE):
                m.d.comb += [word.eq(self.w), wctrl.eq(self.wc)]
                with m.If(go & (self.w == HPSTART[0]) & (self.wc == HPSTART[1])):
                    m.d.comb += self.ev_hpstart.eq(1)
                    m.d.ss += [st.eq(S.S_DW0), c16.eq(0xFFFF)]
            for i, s in enumerate((S.S_DW0, S.S_DW1, S.S_DW2)):
                with m.Case(s):
                    m.d.comb += [word.eq(self.w), wctrl.eq(0)]
                    with m.If(go):
                        m.d.comb += self.ev_dw[i].eq(1)
                        m.d.ss += [self.dw[i].eq(self.w), c16.eq(c16_next), st.eq(s + 1)]
            with m.Case(S.S_DW3):
                m.d.comb += [word.eq(Cat(c16_field ^ self.m16, self.lcw, c5_field ^ self.m5)), wctrl.eq(0)]
                m.d.comb += self.hdr_ok_now.eq((self.m16 == 0) & (self.m5 == 0))
                with m.If(go):
                    m.d.comb += self.ev_dw3.eq(1)
                    m.d.ss += [self.cur_lcw.eq(self.lcw), self.hdr_ok.eq(self.hdr_ok_now), st.eq(S.S_IDLE)]
                    if self.with_dpp:
                        with m.If(self.dpp):
                            m.d.ss += st.eq(S.S_DPP)
            if self.with_dpp:
                with m.Case(S.S_DPP):
                    m.d.comb += [word.eq(DPPSTART[0]), wctrl.eq(DPPSTART[1])]
                    m.d.comb += self.a_len.eq(self.dw[1][16:32] <= self.max_len)
                    with m.If(go):
                        m.d.comb += self.ev_dppstart.eq(1)
                        m.d.ss += [c32.eq(0xFFFFFFFF), m32.eq(self.m32), rem.eq(self.dw[1][16:32]),
                                   self.length.eq(self.dw[1][16:32]), r.eq(0)]
                        with m.If(self.dw[1][16:32] == 0):
                            m.d.ss += st.eq(S.S_T1)
                        with m.Else():
                            m.d.ss += st.eq(S.S_PAY)
                with m.Case(S.S_PAY):
                    m.d.comb += wctrl.eq(0)
                    with m.If(rem >= 4):
                        m.d.comb += [word.eq(self.w), self.pay_n.eq(4)]
                    for n in (1, 2, 3):
                        with m.Elif(rem == n):
                            m.d.comb += [word.eq(Cat(self.w[0:8 * n], (c32_field_n[n] ^ m32)[0:32 - 8 * n])),
                                         self.pay_n.eq(n)]
                    with m.If(go):
                        m.d.comb += self.ev_pay.eq(1)
                        m.d.ss += rem.eq(rem - self.pay_n)
                        with m.Switch(self.pay_n):
                            for n in (1, 2, 3, 4):
                                with m.Case(n):
                                    m.d.ss += c32.eq(c32_n[n])
                        with m.If(rem <= 4):
                            m.d.ss += [st.eq(S.S_T1), r.eq(self.pay_n[0:2])]
                with m.Case(S.S_T1):
                    # the word carrying the last CRC byte: tail bytes [4-r .. 8-r)   (r = 0: the whole CRC)
                    with m.Switch(r):
                        for rr in range(4):
                            with m.Case(rr):
                                off = (4 - rr) % 4
                                m.d.comb += [word.eq(tail[8 * off: 8 * off + 32]),
                                             wctrl.eq(tailc[off: off + 4])]
                    with m.If(go):
                        m.d.comb += self.ev_crc_last.eq(1)
                        m.d.ss += st.eq(S.S_T2)
                with m.Case(S.S_T2):
                    # rest of the END END END EPF framing, zero (logical idle) fill
                    with m.Switch(r):
                        for rr in range(4):
                            with m.Case(rr):
                                off = (4 - rr) % 4 + 4
                                m.d.comb += [word.eq(tail[8 * off: 64]), wctrl.eq(tailc[off: 8])]
                    with m.If(go):
                        m.d.ss += st.eq(S.S_IDLE)
        return m


# ------------------------------------------------------------------ sequential partner: link commands

class SSLinkCommandSource(Elaboratable):
    """Link partner transmitting link commands: LCSTART, then the command word (info + CRC5, twice).

    Free inputs: gap, start (begin a command when idle), cmd (4), sub (4), mask (32, XOR corruption of the word),
    junk word in gap / idle cycles (w, wc; an idle word is never LCSTART: idle data is forced to ctrl != 0b1111
    only through `start`, i.e. idle words are zero/IDL).
    Ghost: ev_cmd = the command word is presented this cycle, cmd_ok = it is uncorrupted, cur_cmd/cur_sub."""

    def __init__(self, h, prefix="lc_"):
        p = prefix
        self.gap = h.inp(p + "gap", 1)
        self.start = h.inp(p + "start", 1)
        self.cmd = h.inp(p + "cmd", 4)
        self.sub = h.inp(p + "sub", 4)
        self.mask = h.inp(p + "mask", 32)
        self.w = h.inp(p + "w", 32)
        self.wc = h.inp(p + "wc", 4)
        self.valid = Signal(name=p + "valid")
        self.data = Signal(32, name=p + "data")
        self.ctrl = Signal(4, name=p + "ctrl")
        self.ev_start = Signal(name=p + "ev_start")
        self.ev_cmd = Signal(name=p + "ev_cmd")
        self.cmd_ok = Signal(name=p + "cmd_ok")
        self.busy = Signal(name=p + "busy")
        self._p = p

    def elaborate(self, platform):
        m = Module()
        p = self._p
        go = Signal(name=p + "go")
        m.d.comb += [go.eq(~self.gap), self.valid.eq(go)]
        cw = link_command_word(m, p + "cw", self.cmd, self.sub, self.mask)
        word = Signal(32, name=p + "word")
        wctrl = Signal(4, name=p + "wordctrl")
        m.d.comb += [self.data.eq(Mux(go, word, self.w)), self.ctrl.eq(Mux(go, wctrl, self.wc))]
        with m.If(self.busy):
            m.d.comb += [word.eq(cw), wctrl.eq(0), self.cmd_ok.eq(self.mask == 0)]
            with m.If(go):
                m.d.comb += self.ev_cmd.eq(1)
                m.d.ss += self.busy.eq(0)
        with m.Elif(self.start):
            m.d.comb += [word.eq(LCSTART[0]), wctrl.eq(LCSTART[1])]
            with m.If(go):
                m.d.comb += self.ev_start.eq(1)
                m.d.ss += self.busy.eq(1)
        with m.Else():
            m.d.comb += [word.eq(0), wctrl.eq(0)]      # logical idle
        return m


# ------------------------------------------------------------------ scripted partner (concrete framing, symbolic data)

def packet_script(length=None, gaps=(), idle_after=0, idle_kind="FREE"):
    """Cycle-by-cycle word kinds of one header packet (+ payload if length is not None).
    `gaps` = positions (indices into the gap-free word list) *before* which one invalid cycle is inserted
    (a position may be listed several times).  Returns a list of kind strings."""
    words = ["HPSTART", "DW0", "DW1", "DW2", "DW3"]
    if length is not None:
        words.append("DPPSTART")
        nfull, r = divmod(length, 4)
        words += [f"PAY{j}" for j in range(nfull + (1 if r else 0))]
        words += ["T1", "T2"]
    out = []
    for i, k in enumerate(words):
        out += ["GAP"] * list(gaps).count(i)
        out.append(k)
    return out + [idle_kind] * idle_after


class SSScriptedSource(Elaboratable):
    """Link partner with *concrete* framing and fully symbolic data (the "slotted host" of DESIGN section 1/2).

    `packets` = list of dicts(length=int|None, gaps=(...), idle_after=int): the packets are sent back to back in
    this order; after the script the stream is FREE traffic forever.  Word kinds per cycle are fixed at build time,
    so after unrolling from reset every framing decision is a constant and the CRC terms of environment and DUT
    become syntactically identical (no CRC miter); what stays symbolic is all data: DW0 (incl. the type field),
    DW1[15:0], DW2, the link control word, every payload byte, the three corruption masks per packet (const inputs),
    and per cycle the junk word shown in invalid cycles and the FREE traffic words (any word except a valid HPSTART:
    `assume_<prefix>free_not_hpstart`).

    CRC16 / CRC32 are combinational chains of the repo's step functions, one named Signal per stage.
    Ghost interface is the same as SSPacketSource's (ev_*, hdr_ok, crc32_ok, length, dw, pay_n, in_payload)."""

    def __init__(self, h, packets, prefix="p_", lead=0):
        p = self._p = prefix
        self.packets = packets
        # (kind, packet index); `lead` concrete logical-idle cycles first.  NOTE: FREE cycles (symbolic valid/data)
        # make the DUT's "is this HPSTART?" decision symbolic, so they must not precede a packet whose CRC is
        # checked (idle_kind="IDLE" gives concrete logical idle between packets instead)
        self.script = [("IDLE", 0)] * lead
        for i, pk in enumerate(packets):
            self.script += [(k, i) for k in packet_script(pk.get("length"), pk.get("gaps", ()), pk.get("idle_after", 0),
                                                         pk.get("idle_kind", "FREE"))]
        self.w = h.inp(p + "w", 32)            # junk / free traffic word
        self.wc = h.inp(p + "wc", 4)
        self.wv = h.inp(p + "wv", 1)           # free traffic valid
        self.f = []
        self.a_pk = []
        for i, pk in enumerate(packets):
            L = pk.get("length")
            n = 0 if L is None else (L + 3) // 4
            hm = pk.get("hdr_masks", "free")        # "zero" | "nonzero" | "free"
            ty = pk.get("type")                      # int (concrete type field) | None (free) | "notdata"
            f = dict(
                dw0=h.inp(f"{p}{i}_dw0", 32, const=True), dw1lo=h.inp(f"{p}{i}_dw1lo", 16, const=True),
                dw1hi=None if L is not None else h.inp(f"{p}{i}_dw1hi", 16, const=True),
                dw2=h.inp(f"{p}{i}_dw2", 32, const=True), lcw=h.inp(f"{p}{i}_lcw", 11, const=True),
                m16=Const(0, 16) if hm == "zero" else h.inp(f"{p}{i}_m16", 16, const=True),
                m5=Const(0, 5) if hm == "zero" else h.inp(f"{p}{i}_m5", 5, const=True),
                m32=h.inp(f"{p}{i}_m32", 32, const=True) if L is not None else None,
                pay=[h.inp(f"{p}{i}_pay{j}", 32, const=True) for j in range(n)])
            f["dw0v"] = Cat(Const(ty, 5), f["dw0"][5:32]) if isinstance(ty, int) else f["dw0"]
            a = None
            if hm == "nonzero" or ty == "notdata":
                a = h.assume(f"{p}{i}_cfg")
            self.a_pk.append((a, hm, ty))
            self.f.append(f)
        self.a_free = h.assume(p + "free_not_hpstart")
        self.valid = Signal(name=p + "valid")
        self.data = Signal(32, name=p + "data")
        self.ctrl = Signal(4, name=p + "ctrl")
        self.t = Signal(range(len(self.script) + 2), name=p + "t")
        self.gap = Signal(name=p + "gap")
        self.ev_hpstart = Signal(name=p + "ev_hpstart")
        self.ev_dw3 = Signal(name=p + "ev_dw3")
        self.dw = [Signal(32, name=p + f"dw{i}") for i in range(3)]
        self.cur_lcw = Signal(11, name=p + "cur_lcw")
        self.hdr_ok = Signal(name=p + "hdr_ok")
        self.ev_dppstart = Signal(name=p + "ev_dppstart")
        self.ev_pay = Signal(name=p + "ev_pay")
        self.pay_n = Signal(3, name=p + "pay_n")
        self.ev_crc_last = Signal(name=p + "ev_crc_last")
        self.crc32_ok = Signal(name=p + "crc32_ok")
        self.length = Signal(16, name=p + "length")
        self.in_payload = Signal(name=p + "in_payload")
        self.pkt = Signal(range(len(packets) + 1), name=p + "pkt")   # index of the packet being sent
        self.hdr_ok_now = Signal(name=p + "hdr_ok_now")             # with ev_dw3: CRC16/CRC5 of this header uncorrupted
        self.lcw_now = Signal(11, name=p + "lcw_now")               # with ev_dw3: its link control word
        self.in_hp = Signal(name=p + "in_hp")                       # HPSTART..DW3 of a header is on the wire (incl. gaps)

    def _gap_in_hp(self, c):
        k = c
        while k < len(self.script) and self.script[k][0] == "GAP":
            k += 1
        return k < len(self.script) and self.script[k][0] in ("DW0", "DW1", "DW2", "DW3")

    def elaborate(self, platform):
        m = Module()
        p = self._p
        t = self.t
        n = len(self.script)
        with m.If(t < n):
            m.d.ss += t.eq(t + 1)
        # per packet combinational words
        pw = []
        for i, pk in enumerate(self.packets):
            f = self.f[i]
            L = pk.get("length")
            dw1 = Signal(32, name=f"{p}{i}_dw1")
            m.d.comb += dw1.eq(Cat(f["dw1lo"], Const(L, 16) if L is not None else f["dw1hi"]))
            dw0 = Signal(32, name=f"{p}{i}_dw0v")
            m.d.comb += dw0.eq(f["dw0v"])
            hw = header_words(m, f"{p}{i}_h", dw0, dw1, f["dw2"], f["lcw"], f["m16"], f["m5"])
            a, hm, ty = self.a_pk[i]
            if a is not None:
                conds = []
                if hm == "nonzero":
                    conds.append((f["m16"] != 0) | (f["m5"] != 0))
                if ty == "notdata":
                    conds.append(f["dw0"][0:5] != HP_TYPE_DATA)
                c = conds[0]
                for x in conds[1:]:
                    c = c & x
                m.d.comb += a.eq(c)
            d = dict(hw=hw, dw1=dw1)
            if L is not None:
                nfull, r = divmod(L, 4)
                st = Const(0xFFFFFFFF, 32)
                for j in range(nfull):
                    st = crc32_next(m, st, f["pay"][j], 4, f"{p}{i}_c32_s{j}")
                if r:
                    st = crc32_next(m, st, f["pay"][nfull], r, f"{p}{i}_c32_s{nfull}")
                field = crc32_out(m, st, f"{p}{i}_c32_field")
                tail = Signal(64, name=f"{p}{i}_tail")
                m.d.comb += tail.eq(Cat(field ^ f["m32"], Const(DPPEND[0], 32)))
                d.update(tail=tail, r=r, nfull=nfull)
            pw.append(d)
        tailc = Const(0xF0, 8)
        word = Signal(32, name=p + "word")
        wctrl = Signal(4, name=p + "wordctrl")
        go = Signal(name=p + "go")
        m.d.comb += [self.valid.eq(go), self.data.eq(Mux(go, word, self.w)), self.ctrl.eq(Mux(go, wctrl, self.wc))]
        free_now = Signal(name=p + "free_now")
        m.d.comb += self.a_free.eq(~(free_now & self.wv & (self.w == HPSTART[0]) & (self.wc == HPSTART[1])))

        def free():
            m.d.comb += [free_now.eq(1), go.eq(self.wv), word.eq(self.w), wctrl.eq(self.wc)]

        with m.Switch(t):
            for c, (kind, i) in enumerate(self.script):
                with m.Case(c):
                    f, d = self.f[i], pw[i]
                    L = self.packets[i].get("length")
                    m.d.comb += self.pkt.eq(i)
                    if kind in ("HPSTART", "DW0", "DW1", "DW2", "DW3") or (kind == "GAP" and self._gap_in_hp(c)):
                        m.d.comb += self.in_hp.eq(1)
                    if kind == "GAP":
                        m.d.comb += [go.eq(0), self.gap.eq(1)]
                    elif kind == "FREE":
                        free()
                    elif kind == "IDLE":
                        m.d.comb += [go.eq(1), word.eq(0), wctrl.eq(0)]
                    elif kind == "HPSTART":
                        m.d.comb += [go.eq(1), word.eq(HPSTART[0]), wctrl.eq(HPSTART[1]), self.ev_hpstart.eq(1)]
                    elif kind in ("DW0", "DW1", "DW2"):
                        k = int(kind[2])
                        m.d.comb += [go.eq(1), word.eq(d["hw"][k]), wctrl.eq(0)]
                        m.d.ss += self.dw[k].eq(d["hw"][k])
                    elif kind == "DW3":
                        m.d.comb += [go.eq(1), word.eq(d["hw"][3]), wctrl.eq(0), self.ev_dw3.eq(1),
                                     self.hdr_ok_now.eq((f["m16"] == 0) & (f["m5"] == 0)), self.lcw_now.eq(f["lcw"])]
                        m.d.ss += [self.cur_lcw.eq(f["lcw"]), self.hdr_ok.eq((f["m16"] == 0) & (f["m5"] == 0))]
                    elif kind == "DPPSTART":
                        m.d.comb += [go.eq(1), word.eq(DPPSTART[0]), wctrl.eq(DPPSTART[1]), self.ev_dppstart.eq(1)]
                        m.d.ss += [self.length.eq(L), self.crc32_ok.eq(f["m32"] == 0), self.in_payload.eq(L != 0)]
                    elif kind.startswith("PAY"):
                        j = int(kind[3:])
                        r, nfull = d["r"], d["nfull"]
                        if j < nfull:
                            m.d.comb += [go.eq(1), word.eq(f["pay"][j]), wctrl.eq(0), self.ev_pay.eq(1), self.pay_n.eq(4)]
                        else:
                            m.d.comb += [go.eq(1), word.eq(Cat(f["pay"][j][0:8 * r], d["tail"][0:32 - 8 * r])),
                                         wctrl.eq(0), self.ev_pay.eq(1), self.pay_n.eq(r)]
                        if j == nfull + (1 if r else 0) - 1:
                            m.d.ss += self.in_payload.eq(0)
                    elif kind == "T1":
                        off = (4 - d["r"]) % 4
                        m.d.comb += [go.eq(1), word.eq(d["tail"][8 * off: 8 * off + 32]), wctrl.eq(tailc[off: off + 4]),
                                     self.ev_crc_last.eq(1)]
                    elif kind == "T2":
                        off = (4 - d["r"]) % 4 + 4
                        m.d.comb += [go.eq(1), word.eq(d["tail"][8 * off: 64]), wctrl.eq(tailc[off: 8])]
            with m.Default():
                m.d.comb += self.pkt.eq(len(self.packets))
                free()
        return m


# ------------------------------------------------------------------ reference word list of one packet

def packet_words(m, name, dw0, dw1, dw2, lcw, pay=(), length=None, m16=0, m5=0, m32=0, abort=False):
    """Reference word sequence [(data Value, ctrl int)] of a header packet and (length is not None) its data packet
    payload: HPSTART, DW0..2, DW3 (CRC16 | link control word | CRC5), DPPSTART, payload words, CRC32 directly after
    the last byte, END END END EPF directly after the CRC, zero fill -- or, with `abort`, DPPSTART followed by
    EDB EDB EDB EPF.  `pay` = list of 32-bit Values (ceil(length/4) of them).  CRCs by the repo's step functions,
    one named Signal per stage."""
    hw = header_words(m, f"{name}_h", dw0, dw1, dw2, lcw, m16, m5)
    out = [(Const(HPSTART[0], 32), 0xF)] + [(w, 0) for w in hw]
    if length is None:
        return out
    out.append((Const(DPPSTART[0], 32), 0xF))
    if abort:
        out.append((Const(DPPABORT[0], 32), 0xF))
        return out
    nfull, r = divmod(length, 4)
    st = Const(0xFFFFFFFF, 32)
    for j in range(nfull):
        st = crc32_next(m, st, pay[j], 4, f"{name}_c32_s{j}")
    if r:
        st = crc32_next(m, st, pay[nfull], r, f"{name}_c32_s{nfull}")
    field = crc32_out(m, st, f"{name}_c32_field")
    tail = Signal(64, name=f"{name}_tail")
    m.d.comb += tail.eq(Cat(field ^ m32, Const(DPPEND[0], 32)))
    for j in range(nfull):
        out.append((pay[j], 0))
    if r:
        last = Signal(32, name=f"{name}_lastword")
        m.d.comb += last.eq(Cat(pay[nfull][0:8 * r], tail[0:32 - 8 * r]))
        out.append((last, 0))
    off = (4 - r) % 4
    t1 = Signal(32, name=f"{name}_t1")
    t2 = Signal(32, name=f"{name}_t2")
    m.d.comb += [t1.eq(tail[8 * off: 8 * off + 32]), t2.eq(tail[8 * (off + 4): 64])]
    out.append((t1, (0xF0 >> off) & 0xF))
    out.append((t2, (0xF0 >> (off + 4)) & 0xF))
    return out
