"""Local work-around for a translator limitation (does not edit nir2smt.py).

`nir2smt.Frame` evaluates every cell as one bit-vector.  Amaranth code such as

    link_command[ 0:11].eq(...)
    link_command[11:16].eq(compute_usb_crc5(link_command[0:11]))      # luna usb3/link/command.py

produces ONE AssignmentList cell whose upper bits depend combinationally on its own lower bits: acyclic at bit
level (pysim and synthesis are fine with it) but cyclic at cell level, so whole-cell evaluation recurses forever.

`install()` patches Frame so that AssignmentList cells lying on a cell-level combinational cycle are evaluated
bit by bit (each bit: priority chain of the assignments covering that bit).  Semantics are unchanged; the
co-simulation queries validate the patched translation against pysim like any other.  Genuine bit-level
combinational loops still recurse (as before).
"""
import z3
from amaranth.hdl import _nir as nir


def _selfref_cells(ts):
    cells = ts.cells
    comb = {}
    for i, c in enumerate(cells):
        if i == 0 or isinstance(c, (nir.FlipFlop, nir.SyncReadPort, nir.Memory, nir.SyncWritePort, nir.Top)):
            continue
        try:
            nets = c.input_nets()
        except Exception:
            continue
        comb[i] = {n.cell for n in nets if not n.is_const and n.cell != 0}
    out = set()
    for i, c in enumerate(cells):
        if not isinstance(c, nir.AssignmentList) or i not in comb:
            continue
        seen = set()
        stack = list(comb[i])
        hit = False
        while stack and not hit:
            j = stack.pop()
            if j == i:
                hit = True
                break
            if j in seen or j not in comb:
                continue
            seen.add(j)
            stack.extend(comb[j])
        if hit:
            out.add(i)
    return out


def install():
    from .. import nir2smt
    Frame = nir2smt.Frame
    if getattr(Frame, "_bitwise_installed", False):
        return
    orig_slice = Frame._slice
    orig_cell = Frame.cell

    def selfref(ts):
        s = getattr(ts, "_selfref", None)
        if s is None:
            s = ts._selfref = _selfref_cells(ts)
        return s

    def _bit(self, c, b):
        key = ("bit", c, b)
        r = self.xcache.get(key)
        if r is not None:
            return r
        cell = self.ts.cells[c]
        cur = self.net(cell.default[b])
        for a in cell.assignments:
            if a.start <= b < a.start + len(a.value):
                cur = z3.If(self.net(a.cond) == 1, self.net(a.value[b - a.start]), cur)
        self.xcache[key] = cur
        return cur

    def _slice(self, c, lo, w):
        if c != 0 and c in selfref(self.ts):
            key = (c, lo, w)
            r = self.xcache.get(key)
            if r is None:
                bits = [_bit(self, c, lo + k) for k in range(w)]
                r = bits[0] if w == 1 else z3.Concat(*reversed(bits))
                self.xcache[key] = r
            return r
        return orig_slice(self, c, lo, w)

    def cell(self, idx):
        if idx in selfref(self.ts):
            return _slice(self, idx, 0, len(self.ts.cells[idx].default))
        return orig_cell(self, idx)

    Frame._slice = _slice
    Frame.cell = cell
    Frame._bitwise_installed = True
