"""Shared USB2 reference logic for monitors and host models (Amaranth expression builders).

Reference functions here are *independent* bit-serial definitions from the USB 2.0 spec (chapter 8.3.5); they are
validated against the vectors in the repo's tests by C30 before anything relies on them.
"""
from amaranth import *

# PIDs (low nibble), full byte = (~pid << 4) | pid
PID_OUT, PID_IN, PID_SOF, PID_SETUP = 0x1, 0x9, 0x5, 0xD
PID_DATA0, PID_DATA1, PID_DATA2, PID_MDATA = 0x3, 0xB, 0x7, 0xF
PID_ACK, PID_NAK, PID_STALL, PID_NYET = 0x2, 0xA, 0xE, 0x6
PID_PING = 0x4


def pid_byte(pid):
    return ((~pid & 0xF) << 4) | pid


def crc5_serial(m, bits11, name="rcrc5"):
    """USB CRC5 of an 11-bit field (Value, LSB sent first): poly x^5+x^2+1, init 0x1F, result inverted,
    transmitted MSB first -> returned so that bit 0 is the first bit on the wire (as it sits in the token's
    third byte, bits [3:8])."""
    reg = Const(0x1F, 5)
    for i in range(11):
        fb = bits11[i] ^ reg[4]
        nxt = Signal(5, name=f"{name}_{i}")
        m.d.comb += nxt.eq(Cat(fb, reg[0], reg[1] ^ fb, reg[2], reg[3]))
        reg = nxt
    out = Signal(5, name=f"{name}_out")
    m.d.comb += out.eq(~Cat(reg[4], reg[3], reg[2], reg[1], reg[0]))
    return out


def crc16_serial_step(m, crc, byte, name):
    """one byte (LSB first) through the bit-serial USB CRC16: poly x^16+x^15+x^2+1, returns new 16-bit register
    (register bit 15 is the highest power)."""
    reg = crc
    for i in range(8):
        fb = byte[i] ^ reg[15]
        nxt = Signal(16, name=f"{name}_b{i}")
        m.d.comb += nxt.eq(Cat(fb, reg[0], reg[1] ^ fb, reg[2:14], reg[14] ^ fb))
        reg = nxt
    return reg


def crc16_wire(m, reg, name):
    """the 16 bits as transmitted (inverted, highest power first) packed so that bit 0 is first on the wire:
    low byte = first CRC byte on the bus"""
    out = Signal(16, name=name)
    m.d.comb += out.eq(~Cat(*[reg[15 - i] for i in range(16)]))
    return out


def utmi_rx_contract(m, domain, rx_active, rx_valid):
    """UTMI receive contract: rx_valid only while rx_active, and never in the first rx_active cycle"""
    prev_active = Signal(name="c_prev_rx_active")
    m.d[domain] += prev_active.eq(rx_active)
    return ~rx_valid | (rx_active & prev_active)


class PacketSpy:
    """Ghost recorder of the bytes of the current UTMI receive packet.

    A packet is the span of rx_active; a byte is a cycle with rx_active & rx_valid.  `end` is a combinational
    strobe in the first cycle rx_active is low after a packet; `count`/`bytes` then describe the finished packet
    (count saturates at nbytes+1).  Monitors register their expectation in that cycle and compare it with the
    DUT's (registered) strobes in the following one."""

    def __init__(self, m, domain, rx_data, rx_active, rx_valid, nbytes, name="spy"):
        self.count = Signal(range(nbytes + 2), name=f"{name}_count")
        self.bytes = [Signal(8, name=f"{name}_b{i}") for i in range(nbytes)]
        self.prev_active = Signal(name=f"{name}_prev_active")
        self.end = Signal(name=f"{name}_end")
        m.d[domain] += self.prev_active.eq(rx_active)
        m.d.comb += self.end.eq(self.prev_active & ~rx_active)
        with m.If(~rx_active):
            m.d[domain] += self.count.eq(0)
        with m.Elif(rx_valid):
            with m.If(self.count <= nbytes):
                m.d[domain] += self.count.eq(self.count + 1)
            for i in range(nbytes):
                with m.If(self.count == i):
                    m.d[domain] += self.bytes[i].eq(rx_data)
