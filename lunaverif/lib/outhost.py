"""Interface-level USB host for OUT-direction endpoint harnesses (C13, C16).

Drives the receive side of a luna ``EndpointInterface`` directly (tokenizer fields, rx stream, rx_complete /
rx_invalid / rx_ready_for_response, rx_pid_toggle) from free per-cycle choice inputs, restricted to what the real
detectors can produce (DESIGN.md section 4.1; the clauses are guarantees of C01/C02/C05):

  * a token event replaces tokenizer.pid/endpoint (visible in the `new_token` cycle); a token for another device
    address only zeroes the pid and gives no `new_token` and no tokenizer.ready_for_response;
  * tokenizer.ready_for_response strobes once per (own-address) token, >= 1 cycle after it, before the next token;
  * at most one data packet follows a token, starting >= 1 cycle after it: rx.valid is high for n+1.. cycles,
    rx.next pulses (0..mps of them, any gaps) carry the payload bytes, the last rx.valid cycle has no rx.next;
  * in the first cycle rx.valid is low again exactly one of rx_complete / rx_invalid strobes;
  * after rx_complete (only), rx_ready_for_response strobes once, >= 1 cycle later (any gap: covers HS 1 cycle,
    FS 10 cycles @60 MHz / 2 cycles @12 MHz), and before the next token;
  * rx_pid_toggle (bit 3 of the DATA pid, DATA0/DATA1 only) changes only when a data packet starts;
  * the next token comes no earlier than `pkt_gap` cycles after the rx_complete/rx_invalid cycle (physically >= 5:
    one idle cycle plus a 3-byte token; the default 3 is more permissive) and not while a response is outstanding.
"""
from amaranth import *

PID_OUT, PID_IN, PID_SETUP, PID_PING = 0x1, 0x9, 0xD, 0x4

IDLE, PKT, DONE, WAIT = 0, 1, 2, 3


class OutHost:
    def __init__(self, h, interface, mps, pkt_gap=3, custom_payload=False):
        self.h, self.itf, self.mps, self.pkt_gap = h, interface, mps, pkt_gap
        # custom_payload: the harness drives `self.payload` itself (e.g. to tag bytes); default payload = pkt_data
        self.custom_payload = custom_payload
        self.payload = Signal(8, name="host_payload")
        i = h.inp
        self.tok_go = i("tok_go")
        self.tok_pid = i("tok_pid", 4)
        self.tok_ep = i("tok_ep", 4)
        self.tok_rfr_go = i("tok_rfr_go")
        self.pkt_go = i("pkt_go")
        self.pkt_nxt = i("pkt_nxt")
        self.pkt_data = i("pkt_data", 8)
        self.pkt_end = i("pkt_end")
        self.pkt_ok = i("pkt_ok")
        self.pkt_toggle = i("pkt_toggle")
        self.resp_go = i("resp_go")
        # state
        self.ph = Signal(2, name="host_ph")
        self.pid_r = Signal(4, name="host_pid_r")
        self.ep_r = Signal(4, name="host_ep_r")
        self.toggle_r = Signal(name="host_toggle_r")
        self.plen_r = Signal(range(mps + 2), name="host_plen_r")
        self.cool = Signal(range(pkt_gap + 1), name="host_cool")
        self.data_allowed = Signal(name="host_data_allowed")
        self.rfr_pending = Signal(name="host_rfr_pending")
        # events (combinational)
        self.ev_token = Signal(name="host_ev_token")       # tokenizer fields replaced in this cycle
        self.ev_new_token = Signal(name="host_ev_new_token")
        self.ev_tok_rfr = Signal(name="host_ev_tok_rfr")   # tokenizer.ready_for_response
        self.ev_start = Signal(name="host_ev_start")       # first rx.valid cycle of a data packet
        self.in_pkt = Signal(name="host_in_pkt")           # rx.valid
        self.ev_byte = Signal(name="host_ev_byte")         # rx.next
        self.ev_end = Signal(name="host_ev_end")           # last rx.valid cycle
        self.ev_complete = Signal(name="host_ev_complete")
        self.ev_invalid = Signal(name="host_ev_invalid")
        self.ev_resp = Signal(name="host_ev_resp")         # rx_ready_for_response
        self.pid = Signal(4, name="host_pid")
        self.ep = Signal(4, name="host_ep")
        self.toggle = Signal(name="host_toggle")
        self.plen_cur = Signal(range(mps + 2), name="host_plen_cur")   # bytes before this cycle's byte
        self.plen = Signal(range(mps + 2), name="host_plen")           # bytes of the last/current packet so far
        for n in ("ph", "pid_r", "ep_r", "toggle_r", "plen_r", "cool", "data_allowed", "rfr_pending"):
            h.obs("host_" + n, getattr(self, n))

    def elaborate(self, m, domain="usb"):
        d = m.d[domain]
        itf, tk = self.itf, self.itf.tokenizer
        ph = self.ph
        # ---- tokens
        m.d.comb += self.ev_token.eq(self.tok_go & (ph == IDLE) & (self.cool == 0) & ~self.rfr_pending)
        m.d.comb += [
            self.pid.eq(Mux(self.ev_token, self.tok_pid, self.pid_r)),
            self.ep.eq(Mux(self.ev_token & (self.tok_pid != 0), self.tok_ep, self.ep_r)),
            self.ev_new_token.eq(self.ev_token & (self.tok_pid != 0)),
            self.ev_tok_rfr.eq(self.tok_rfr_go & self.rfr_pending),
        ]
        with m.If(self.ev_token):
            d += [self.pid_r.eq(self.pid), self.ep_r.eq(self.ep), self.data_allowed.eq(1),
                  self.rfr_pending.eq(self.tok_pid != 0)]
        with m.If(self.ev_tok_rfr):
            d += self.rfr_pending.eq(0)
        with m.If(self.cool != 0):
            d += self.cool.eq(self.cool - 1)
        # ---- data packet
        m.d.comb += [
            self.ev_start.eq((ph == IDLE) & self.pkt_go & self.data_allowed & ~self.ev_token),
            self.in_pkt.eq(self.ev_start | (ph == PKT)),
            self.plen_cur.eq(Mux(self.ev_start, 0, self.plen_r)),
            self.ev_end.eq(self.in_pkt & self.pkt_end),
            self.ev_byte.eq(self.in_pkt & self.pkt_nxt & ~self.pkt_end & (self.plen_cur < self.mps)),
            self.plen.eq(self.plen_cur + self.ev_byte),
            self.toggle.eq(Mux(self.ev_start, self.pkt_toggle, self.toggle_r)),
            self.ev_complete.eq((ph == DONE) & self.pkt_ok),
            self.ev_invalid.eq((ph == DONE) & ~self.pkt_ok),
            self.ev_resp.eq((ph == WAIT) & self.resp_go),
        ]
        with m.If(self.in_pkt):
            d += [self.plen_r.eq(self.plen), self.toggle_r.eq(self.toggle), self.data_allowed.eq(0),
                  ph.eq(Mux(self.ev_end, DONE, PKT))]
        with m.If(ph == DONE):
            d += [ph.eq(Mux(self.pkt_ok, WAIT, IDLE)), self.cool.eq(self.pkt_gap - 1)]
        with m.If(self.ev_resp):
            d += ph.eq(IDLE)
        if not self.custom_payload:
            m.d.comb += self.payload.eq(self.pkt_data)
        # ---- drive the endpoint interface
        m.d.comb += [
            tk.pid.eq(self.pid),
            tk.endpoint.eq(self.ep),
            tk.new_token.eq(self.ev_new_token),
            tk.ready_for_response.eq(self.ev_tok_rfr),
            tk.is_in.eq(self.pid == PID_IN),
            tk.is_out.eq(self.pid == PID_OUT),
            tk.is_setup.eq(self.pid == PID_SETUP),
            tk.is_ping.eq(self.pid == PID_PING),
            itf.rx.valid.eq(self.in_pkt),
            itf.rx.next.eq(self.ev_byte),
            itf.rx.payload.eq(self.payload),
            itf.rx_complete.eq(self.ev_complete),
            itf.rx_invalid.eq(self.ev_invalid),
            itf.rx_ready_for_response.eq(self.ev_resp),
            itf.rx_pid_toggle.eq(self.toggle),
        ]

    CONTRACT = [
        "interface-level host (lib/outhost.py): token events replace tokenizer.pid/endpoint; foreign-address tokens "
        "only zero the pid; tokenizer.ready_for_response once per own token, >=1 cycle later, before the next token",
        "at most one data packet per token, rx.valid framing as USBDataPacketReceiver produces it (C02): "
        "0..mps rx.next pulses with arbitrary gaps, last rx.valid cycle without rx.next, then exactly one of "
        "rx_complete/rx_invalid, then (after rx_complete only) one rx_ready_for_response >=1 cycle later (any gap)",
        "rx_pid_toggle is DATA0/DATA1 (1 bit) and changes only when a data packet starts",
        "packets never overlap: next token >= pkt_gap cycles after rx_complete/rx_invalid and after the response strobe",
    ]

    def stimulus(self, rng, t, consts, ep, pids=(PID_OUT, PID_OUT, PID_OUT, PID_PING, PID_IN, 0)):
        """protocol-biased random stimulus for co-simulation"""
        r = rng.random
        return dict(tok_go=int(r() < 0.4), tok_pid=rng.choice(pids), tok_ep=ep if r() < 0.8 else rng.getrandbits(4),
                    tok_rfr_go=int(r() < 0.6), pkt_go=int(r() < 0.6), pkt_nxt=int(r() < 0.7),
                    pkt_data=rng.getrandbits(8), pkt_end=int(r() < 0.3), pkt_ok=int(r() < 0.8),
                    pkt_toggle=int(r() < 0.5), resp_go=int(r() < 0.5))
