#!/bin/bash
# Offline bootstrap: z3-solver (+ jsonschema) from the local wheelhouse into /verif/.deps
HERE="$(cd "$(dirname "$0")" && pwd)"
cd "$HERE"
exec 9>"$HERE/.deps.lock"
flock 9
if [ ! -d "$HERE/.deps/z3" ]; then
  rm -rf "$HERE/.deps.tmp"
  PIP_NO_INDEX=1 /venv/bin/pip install -q --no-index --find-links /opt/veriftools/wheels \
      --target "$HERE/.deps.tmp" z3-solver jsonschema >/dev/null 2>&1 || exit 2
  rm -rf "$HERE/.deps"; mv "$HERE/.deps.tmp" "$HERE/.deps"
fi
exit 0
