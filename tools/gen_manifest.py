#!/venv/bin/python
"""Regenerate /verif/MANIFEST.json from lunaverif/props/*.py (each module carries PROP, LEVEL_TEXT, LEVEL_NOTE, TECHNIQUE)
and tools/not_applicable.json.  Run after adding a property module."""
import importlib, json, os, sys, glob
HERE = os.path.dirname(os.path.dirname(os.path.abspath(__file__)))
sys.path.insert(0, HERE); sys.path.insert(0, os.path.join(HERE, ".deps")); sys.path.insert(0, "/repo")
ids = [json.loads(l)["id"] for l in open(os.path.join(HERE, "properties.jsonl"))]
na_path = os.path.join(HERE, "tools", "not_applicable.json")
na = json.load(open(na_path)) if os.path.exists(na_path) else {}
checks, napp = [], []


def green(pid):
    """a property is claimed only if its last evidence file (written by ./check on /repo) shows a clean run"""
    ev = os.path.join(HERE, "evidence", pid + ".json")
    if not os.path.exists(ev):
        return False, "check exists but has not completed a clean run on the current tree yet"
    e = json.load(open(ev))
    # (a thorough-tier query the solver did not decide is inconclusive, not a failure: see run.py)
    fatal = ("violation", "error", "mismatch", "vacuous") + (() if e.get("tier") == "thorough" else ("unknown",))
    bad = [q for q in e["coverage"].get("queries", []) if q.get("status") in fatal and q.get("required", True)]
    if e.get("violations") or bad:
        return False, "check not yet clean on the current tree (under construction)"
    return True, ""


for pid in ids:
    path = os.path.join(HERE, "lunaverif", "props", pid.lower() + ".py")
    ok, why = green(pid) if os.path.exists(path) else (False, "")
    if os.path.exists(path) and pid not in na and not ok:
        napp.append(dict(property_id=pid, reason=why))
        continue
    if os.path.exists(path) and pid not in na:
        mod = importlib.import_module(f"lunaverif.props.{pid.lower()}")
        checks.append(dict(
            property_id=pid,
            quick_cmd=f"./check {pid} --tier quick",
            thorough_cmd=f"./check {pid} --tier thorough",
            evidence_file=f"/verif/evidence/{pid}.json",
            replay_cmd_template=f"./check {pid} --replay {{path}}",
            engine="lunaverif",
            level_claimed=dict(category="model_checking",
                               text=getattr(mod, "LEVEL_TEXT", "") or
                               "Bounded model checking of the netlist Amaranth elaborates from the real class: z3 decides every "
                               "input value and schedule up to the stated depth; " + getattr(mod, "BOUNDS", ""),
                               design_ref=f"DESIGN.md section 5 ({pid})"),
            level_note=getattr(mod, "LEVEL_NOTE", "") or
            ("Trusted: Amaranth front end (Fragment/NIR), our NIR->z3 translation (co-simulated against pysim every run, "
             "every witness replayed on pysim), the harness monitor as our reading of the property. Assumptions: " +
             "; ".join(getattr(mod, "ASSUMPTIONS", []))),
            technique=getattr(mod, "TECHNIQUE", "SMT bounded model checking (z3 QF_BV) of the elaborated Amaranth netlist, "
                                                 "counterexamples replayed on pysim"),
        ))
    else:
        napp.append(dict(property_id=pid, reason=na.get(pid, "no sound harness built yet within the time budget; not claimed")))
man = dict(
    version=1,
    setup_cmd="./setup.sh",
    hooks=dict(guard="LUNA_VERIF", enable="no source hooks are needed: harnesses in /verif wrap the unmodified luna classes "
               "(the checks export LUNA_VERIF=1, which nothing in /repo reads)",
               baseline_off_cmd="cd /repo && /venv/bin/python -m pytest -ra -q -p no:cacheprovider --timeout=900 --continue-on-collection-errors",
               source_commits=[], add_only=True),
    engines=[dict(name="lunaverif", path="/verif/lunaverif", serves_properties=[c["property_id"] for c in checks],
                  kind_free_text="Amaranth NIR netlist -> z3 QF_BV transition system; BMC / k-induction / cover queries; "
                                 "pysim replay and co-simulation")],
    checks=checks,
    not_applicable=napp,
    notes="See DESIGN.md. Exit 0 = held on everything explored; exit 1 + VIOLATION line = reproduced counterexample; "
          "exit 2 = infrastructure/inconclusive (never reported as a violation). known_findings.json lists recorded/fixed defects.",
)
json.dump(man, open(os.path.join(HERE, "MANIFEST.json"), "w"), indent=1)
try:
    import jsonschema
    jsonschema.validate(man, json.load(open("/root/.vp/MANIFEST.schema.json")))
    print("MANIFEST valid:", len(checks), "checks,", len(napp), "not applicable")
except ImportError:
    print("written (jsonschema missing)")
