#!/bin/bash
# tools/seed_watch.sh ID... : for each id, wait until /tmp/seed_ID/seed_out/meta.json exists, then confirm + run its check (tools/seed_batch.sh)
for p in "$@"; do
  ( for i in $(seq 1 200); do [ -f /tmp/seed_$p/seed_out/meta.json ] && break; sleep 10; done
    [ -f /tmp/seed_$p/seed_out/meta.json ] && { sleep 45; VERIF_JOBS=2 /verif/tools/seed_batch.sh $p; } ) > /dev/null 2>&1 &
done
wait
