#!/bin/bash
# tools/seed_batch.sh CNN...  : confirm each seeded change independently, then run the quick check against it
for p in "$@"; do
  /verif/tools/confirm_seed.sh $p
  VERIF_JOBS=${VERIF_JOBS:-6} /verif/tools/run_seed.sh $p
done
