#!/venv/bin/python
"""Regenerate the generated tables of DESIGN.md (between the BEGIN/END GENERATED markers) from known_findings.json,
seeded/*/meta.json, MANIFEST.json and evidence/*.json."""
import json, glob, os, re, sys

V = "/verif"


def short(s, n):
    s = " ".join(str(s).split())
    return s if len(s) <= n else s[:n - 1].rstrip() + "…"


def findings_table():
    d = json.load(open(f"{V}/known_findings.json"))
    fixed = [e for e in d["findings"] if e.get("status") == "fixed"]
    opened = [e for e in d["findings"] if e.get("status") != "fixed"]
    out = ["| property | commit in /repo | what failed on the original tree |", "|---|---|---|"]
    for e in sorted(fixed, key=lambda e: e["property"]):
        line = e.get("line", "")
        m = re.match(r"fixed: property=\S+ \S+ (.*)", line)
        out.append(f"| {e['property']} | `{e.get('commit', '')}` | {short(m.group(1) if m else line, 420)} |")
    out.append("")
    if opened:
        out += ["Open findings (reported as `KNOWN-FINDING:` lines, exit 0):", "",
                "| property | assertion | scenario predicate | what fails |", "|---|---|---|---|"]
        for e in sorted(opened, key=lambda e: (e["property"], e.get("assertion", ""))):
            out.append(f"| {e['property']} | {e.get('assertion', '')} | {e.get('scenario', '')} | {short(e.get('what', ''), 420)} |")
    else:
        out.append("No finding is open.")
    return "\n".join(out)


def seeded_table():
    out = ["| seed (CNN = round 1, CNNb = round 2) | file changed | the change | what it needs to show | result of `./check CNN --tier quick` on it |",
           "|---|---|---|---|---|"]
    for mp in sorted(glob.glob(f"{V}/seeded/C*/meta.json")):
        m = json.load(open(mp))
        det = m.get("detected") or {}
        if isinstance(det, str):
            det = {}
        conf = m.get("confirmed") or {}
        if det.get("caught"):
            res = "caught: " + ", ".join(det.get("violated", [])[:4])
            if det.get("tier"):
                res += f" ({det['tier']})"
        elif det.get("exit") is not None:
            res = f"not caught by its own check (exit {det.get('exit')})"
        else:
            res = "not run"
        if m.get("note"):
            res += " -- " + m["note"]
        sid = os.path.basename(os.path.dirname(mp))
        out.append(f"| {sid} | {', '.join(os.path.basename(f) for f in m.get('files_changed', []))} | "
                   f"{short(m.get('what', ''), 260)} | {short(m.get('needs', ''), 260)} | {short(res, 260)} |")
    return "\n".join(out)


def claims_table():
    man = json.load(open(f"{V}/MANIFEST.json"))
    out = ["| property | tier of the evidence on file | solver queries | discharged | deepest K | solver time (s) | wall (s) | verdicts |",
           "|---|---|---|---|---|---|---|---|"]
    for c in man.get("checks", []):
        pid = c.get("property_id")
        ep = f"{V}/evidence/{pid}.json"
        if not os.path.exists(ep):
            out.append(f"| {pid} | | | | | | | no evidence |")
            continue
        e = json.load(open(ep))
        cov = e.get("coverage", {})
        qs = cov.get("queries") or []
        ks = [q.get("K") or 0 for q in qs]
        st = {}
        for q in qs:
            st[q.get("status")] = st.get(q.get("status"), 0) + 1
        out.append(f"| {pid} | {e.get('tier')} | {cov.get('obligations')} | {cov.get('discharged')} | {max(ks) if ks else ''} | "
                   f"{round(cov.get('solver_seconds') or 0)} | {round(e.get('wall_s') or 0)} | "
                   f"{', '.join(f'{k}: {v}' for k, v in sorted(st.items(), key=lambda kv: str(kv[0])))} |")
    return "\n".join(out)


def asbuilt_table():
    sys.path[:0] = [V, f"{V}/.deps", os.environ.get("VERIF_REPO", "/repo")]
    import importlib, warnings
    warnings.simplefilter("ignore")
    out = ["| property | real code encoded | bounds | assumptions (count) | outside the claim |", "|---|---|---|---|---|"]
    for i in range(1, 58):
        pid = f"C{i:02d}"
        try:
            mod = importlib.import_module(f"lunaverif.props.c{i:02d}")
        except Exception as ex:
            out.append(f"| {pid} | (module failed to import: {ex}) | | | |")
            continue
        enc = getattr(mod, "ENCODED", [])
        enc = "; ".join(enc) if isinstance(enc, (list, tuple)) else str(enc)
        ass = getattr(mod, "ASSUMPTIONS", [])
        out.append(f"| {pid} | {short(enc, 300)} | {short(getattr(mod, 'BOUNDS', ''), 420)} | {len(ass)} | "
                   f"{short(getattr(mod, 'OUTSIDE', ''), 300)} |")
    return "\n".join(out)


def thorough_table():
    d = json.load(open(f"{V}/sweeps/thorough.json"))
    out = [f"Last run of each thorough command on the unchanged tree (one check at a time with 4-7 solver processes, two or three "
           f"checks in parallel; /repo moved through the fixes this tier found -- C37, C40 and, via its new receive layers, C25 "
           f"-- and is at `{d['repo_head']}` now; a check whose module or whose encoded luna files changed afterwards was run again, "
           "except C06, whose token-only-SETUP cubes were added after its 84-minute run and are exercised by the quick tier):", "",
           "| property | exit | wall (s) | verdicts | inconclusive queries (solver limit reached; not counted as discharged) |",
           "|---|---|---|---|---|"]
    for pid, r in sorted(d["results"].items()):
        out.append(f"| {pid} | {r['exit']} | {round(r['wall_s'])} | "
                   f"{', '.join(f'{k}: {v}' for k, v in sorted(r['verdicts'].items()))} | {short('; '.join(r['inconclusive']), 300)} |")
    return "\n".join(out)


TABLES = {"THOROUGH": thorough_table, "FINDINGS": findings_table, "SEEDED": seeded_table, "CLAIMS": claims_table, "ASBUILT": asbuilt_table}


def main():
    p = f"{V}/DESIGN.md"
    s = open(p).read()
    for name, fn in TABLES.items():
        b, e = f"<!-- BEGIN GENERATED {name} -->", f"<!-- END GENERATED {name} -->"
        if b in s and e in s:
            try:
                body = fn()
            except Exception as ex:       # keep the document intact if a source file is missing
                print("skip", name, ex, file=sys.stderr)
                continue
            s = s[:s.index(b) + len(b)] + "\n" + body + "\n" + s[s.index(e):]
    open(p, "w").write(s)


if __name__ == "__main__":
    main()
