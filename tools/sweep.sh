#!/bin/bash
# tools/sweep.sh <tier> CNN...   : run the checks one after another, logs in /tmp/sweep/<tier>_CNN.log, summary line each
T=$1; shift
for p in "$@"; do
  s=$(date +%s)
  /verif/check $p --tier $T > /tmp/sweep/${T}_$p.log 2>&1
  e=$?
  echo "$p exit=$e wall=$(( $(date +%s) - s ))s known=$(grep -c '^KNOWN-FINDING' /tmp/sweep/${T}_$p.log) bad=$(grep -a '^\[' /tmp/sweep/${T}_$p.log | grep -a -c -v 'holds\|covered\|cosim_ok\|tier=\|ind_ok')" >> /tmp/sweep/${T}_summary.txt
done
