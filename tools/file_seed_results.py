#!/venv/bin/python
"""Collect the confirmation logs and check results of the seeded changes into /verif/seeded/<id>/meta.json
(our own fields are added under "confirmed" and "detected"; the seeder's fields are kept)."""
import json, os, re, glob, sys
out = []
for d in sorted(glob.glob("/verif/seeded/C*")):
    pid = os.path.basename(d)
    mpath = os.path.join(d, "meta.json")
    try:
        meta = json.load(open(mpath))
    except Exception:
        meta = {"property": pid}
    clog = f"/tmp/confirm_{pid}.log"
    if os.path.exists(clog):
        t = open(clog).read()
        def after(marker):
            m = re.search(re.escape(marker) + r".*?\n(.*?)\n", t, re.S)
            return m.group(1).strip() if m else ""
        meta["confirmed"] = dict(
            patch_matches_worktree="SAME" in t,
            demo_with_change=after("== demo WITH change (must fail)"),
            demo_without_change=after("== demo WITHOUT change (must pass)"),
            suite_with_change=after("== suite WITH change"),
            how="tools/confirm_seed.sh: demo run with the change (must exit non-zero), `git apply -R`, demo run again "
                "(must exit 0), `git apply`, full pytest suite with PYTHONPATH on the scratch worktree")
    rlog = f"/tmp/seedrun_{pid}.log"
    if os.path.exists(rlog):
        t = open(rlog).read()
        m = re.search(r"SEED-RESULT \S+ exit=(\d+)", t)
        mt = re.search(r"SEED-RESULT \S+ exit=\d+ tier=(\S+)", t)
        viols = sorted(set(re.findall(r"(\S+) (assert:\S+) K=\S+ -> violation", t)))
        meta["detected"] = dict(
            check=f"VERIF_REPO=/tmp/seed_{pid} ./check {pid[:3]} --tier {mt.group(1) if mt else 'quick'}",
            tier=(mt.group(1) if mt else "quick"), applies=("SEED-PATCH-DOES-NOT-APPLY" not in t),
            exit=int(m.group(1)) if m else None,
            caught=bool(m and m.group(1) == "1"),
            violated=[f"{q}:{a[7:]}" for q, a in viols][:12])
    notes = json.load(open("/verif/seeded/notes.json")) if os.path.exists("/verif/seeded/notes.json") else {}
    if pid in notes:
        meta["note"] = notes[pid]["note"]
        if notes[pid].get("caught_by"):
            meta["caught_by_other_check"] = notes[pid]["caught_by"]
    json.dump(meta, open(mpath, "w"), indent=1)
    c = meta.get("confirmed", {})
    dt = meta.get("detected", {})
    out.append((pid, c.get("demo_with_change"), c.get("demo_without_change"), c.get("suite_with_change", "")[:12], dt.get("exit"), ",".join(dt.get("violated", []))[:70]))
for r in out:
    print(*r, sep=" | ")
