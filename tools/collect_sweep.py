#!/venv/bin/python
"""tools/collect_sweep.py <tier>: summarise /tmp/sweep/<tier>_CNN.log into /verif/sweeps/<tier>.json (committed record of the
last full run of that tier on the unchanged tree: exit code, wall time, verdict counts, inconclusive queries)."""
import sys, re, glob, json, os, subprocess
tier = sys.argv[1]
out = {}
for f in sorted(glob.glob(f"/tmp/sweep/{tier}_C*.log")):
    pid = re.search(r"_(C\d\d)\.log", f).group(1)
    t = open(f, errors="replace").read()
    m = re.search(r"\[C\d\d\] tier=\S+ exit=(\d+) wall=([\d.]+)s", t)
    if not m:
        continue
    st = {}
    inconclusive = []
    for line in t.splitlines():
        mm = re.match(r"\[C\d\d\] (\S+) (\S+) K=\S+ -> (\S+)", line)
        if mm:
            st[mm.group(3)] = st.get(mm.group(3), 0) + 1
            if mm.group(3) == "unknown":
                inconclusive.append(f"{mm.group(1)} {mm.group(2)}")
    out[pid] = dict(exit=int(m.group(1)), wall_s=float(m.group(2)), verdicts=st, inconclusive=inconclusive[:40],
                    known_finding_lines=t.count("\nKNOWN-FINDING"))
os.makedirs("/verif/sweeps", exist_ok=True)
head = subprocess.check_output(["git", "-C", "/repo", "rev-parse", "--short", "HEAD"]).decode().strip()
json.dump(dict(tier=tier, repo_head=head, results=out), open(f"/verif/sweeps/{tier}.json", "w"), indent=1)
print(len(out), "properties;", sum(1 for v in out.values() if v["exit"] != 0), "non-zero exits")
