#!/bin/bash
# tools/confirm_seed.sh CNN : independently confirm a seeded change produced in /tmp/seed_CNN and file it under /verif/seeded/CNN
P=$1; WT=/tmp/seed_$P; OUT=/verif/seeded/$P; LOG=/tmp/confirm_$P.log   # P may be CNN or CNNx
mkdir -p $OUT; cd $WT || exit 1
{
echo "== worktree diff vs patch.diff"; git diff -- luna > /tmp/confirm_$P.cur.diff; diff -q /tmp/confirm_$P.cur.diff seed_out/patch.diff && echo SAME
echo "== demo WITH change (must fail)"; PYTHONPATH=$WT timeout 900 /venv/bin/python seed_out/demo.py > /tmp/confirm_$P.with.out 2>&1; echo "exit=$?"; tail -3 /tmp/confirm_$P.with.out
git apply -R seed_out/patch.diff || echo "REVERT FAILED"
echo "== demo WITHOUT change (must pass)"; PYTHONPATH=$WT timeout 900 /venv/bin/python seed_out/demo.py > /tmp/confirm_$P.without.out 2>&1; echo "exit=$?"; tail -2 /tmp/confirm_$P.without.out
git apply seed_out/patch.diff || echo "REAPPLY FAILED"
echo "== suite WITH change"; PYTHONPATH=$WT timeout 1800 /venv/bin/python -m pytest -q -p no:cacheprovider --timeout=900 tests 2>&1 | tail -1
echo "== luna import path"; PYTHONPATH=$WT /venv/bin/python -c "import luna; print(luna.__file__)"
} > $LOG 2>&1
cp seed_out/patch.diff seed_out/demo.py seed_out/meta.json $OUT/ 2>/dev/null
echo "CONFIRM-DONE $P" >> $LOG
