#!/venv/bin/python
"""Mutation self-test helper:  tools/mut.py PROP FILE OLD NEW [--tier quick] [--only name]
Creates a scratch worktree of /repo's HEAD, replaces the unique occurrence of OLD by NEW in FILE, runs the check
against it (VERIF_REPO) without writing evidence, removes the worktree.  Prints the exit code and VIOLATION lines."""
import subprocess, sys, os, tempfile, shutil
prop, file, old, new = sys.argv[1:5]
extra = sys.argv[5:]
wt = tempfile.mkdtemp(prefix=f"wt_mut_{prop}_", dir="/tmp")
os.rmdir(wt)
subprocess.run(["git", "-C", "/repo", "worktree", "add", "--detach", "-q", wt], check=True)
try:
    p = os.path.join(wt, file)
    s = open(p).read()
    n = s.count(old)
    if n != 1:
        print(f"MUT-ERROR: pattern occurs {n} times"); sys.exit(3)
    open(p, "w").write(s.replace(old, new))
    env = dict(os.environ, VERIF_REPO=wt)
    r = subprocess.run(["./check", prop, "--no-evidence"] + extra, cwd="/verif", env=env, capture_output=True, text=True)
    lines = [l for l in r.stdout.splitlines() if "VIOLATION" in l or "-> violation" in l or "mismatch" in l or "error" in l or "vacuous" in l or "unknown" in l]
    print("\n".join(lines[:12]))
    print(f"MUT-RESULT exit={r.returncode} ({'CAUGHT' if r.returncode == 1 else 'MISSED' if r.returncode == 0 else 'INFRA'})")
finally:
    subprocess.run(["git", "-C", "/repo", "worktree", "remove", "--force", wt])
