#!/venv/bin/python
"""tools/crosscheck.py CNN [--only substr]: dump every assertion query of the quick tier of CNN as SMT-LIB 2 (the very
formula handed to the z3 Python API) and decide it again with two independent solver binaries: /usr/bin/z3 (4.8.12) and
cvc5 (1.0.3).  Prints one line per query and a DISAGREE line if the verdicts differ (unknown / timeout never counts as
a disagreement).  Results are appended to /verif/sweeps/crosscheck.json."""
import sys, os, subprocess, glob, json, time, shutil
prop = sys.argv[1]
only = sys.argv[sys.argv.index("--only") + 1] if "--only" in sys.argv else None
d = f"/tmp/smtdump_{prop}"
shutil.rmtree(d, ignore_errors=True)
env = dict(os.environ, VERIF_DUMP_SMT=d)
cmd = ["/verif/check", prop, "--tier", "quick", "--no-evidence"] + (["--only", only] if only else [])
log = subprocess.run(cmd, env=env, capture_output=True, text=True).stdout
ours = {}
for line in log.splitlines():
    if line.startswith(f"[{prop}]") and " assert:" in line:
        parts = line.split()
        ours[f"{prop}_{parts[1]}_{parts[2].split(':', 1)[1]}"] = parts[5]
rows = []
bad = 0
for f in sorted(glob.glob(f"{d}/*.smt2")):
    name = os.path.basename(f)[:-5]
    if os.path.getsize(f) > 60e6:
        continue
    res = {}
    for sname, c in (("z3-4.8.12", ["/usr/bin/z3", "-T:120", f]), ("cvc5-1.0.3", ["cvc5", "--tlimit=120000", f])):
        t = time.time()
        try:
            o = subprocess.run(c, capture_output=True, text=True, timeout=150).stdout.strip().splitlines()
            v = o[0] if o and o[0] in ("sat", "unsat", "unknown") else "timeout"
        except subprocess.TimeoutExpired:
            v = "timeout"
        res[sname] = (v, round(time.time() - t, 1))
    mine = {"holds": "unsat", "violation": "sat"}.get(ours.get(name), ours.get(name))
    verdicts = {v for v, _ in res.values() if v in ("sat", "unsat")} | ({mine} if mine in ("sat", "unsat") else set())
    dis = len(verdicts) > 1
    bad += dis
    print(("DISAGREE " if dis else "agree    ") + name, "z3py:", mine, res)
    rows.append(dict(query=name, z3py=mine, **{k: v[0] for k, v in res.items()}, disagree=dis))
p = "/verif/sweeps/crosscheck.json"
allr = json.load(open(p)) if os.path.exists(p) else {}
allr[prop] = rows
os.makedirs("/verif/sweeps", exist_ok=True)
json.dump(allr, open(p, "w"), indent=1)
shutil.rmtree(d, ignore_errors=True)
sys.exit(1 if bad else 0)
