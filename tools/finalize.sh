#!/bin/bash
# tools/finalize.sh : regenerate the derived files (sweep records, seed results, MANIFEST.json, DESIGN.md tables)
cd /verif
/venv/bin/python tools/collect_sweep.py quick
/venv/bin/python tools/collect_sweep.py thorough
/venv/bin/python tools/file_seed_results.py > /dev/null
/venv/bin/python tools/gen_manifest.py | tail -1
/venv/bin/python tools/gen_design_tables.py
