#!/bin/bash
# tools/run_seed.sh CNN [worktree]  -- run the quick check of CNN against a seeded worktree, log to /tmp/seedrun_CNN.log
P=$1; WT=${2:-/tmp/seed_$P}
cd /verif
( cd $WT && git diff --stat -- luna | tail -3 ) > /tmp/seedrun_$P.log 2>&1
VERIF_REPO=$WT VERIF_JOBS=${VERIF_JOBS:-4} nice -n -5 timeout 3000 ./check $P --tier quick --no-evidence >> /tmp/seedrun_$P.log 2>&1
echo "SEED-RESULT $P exit=$?" >> /tmp/seedrun_$P.log
