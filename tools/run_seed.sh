#!/bin/bash
# tools/run_seed.sh ID [tier] -- ID = CNN or CNNx (second-round seeds: C06b ...).  Bring the seeded worktree /tmp/seed_ID to /repo's
# current HEAD + the seeded change, run the check of CNN against it, log to /tmp/seedrun_ID.log
ID=$1; P=${ID:0:3}; TIER=${2:-quick}; WT=/tmp/seed_$ID; LOG=/tmp/seedrun_$ID.log
PATCH=$WT/seed_out/patch.diff; [ -f $PATCH ] || PATCH=/verif/seeded/$ID/patch.diff
cd /verif
{
  HEAD=$(git -C /repo rev-parse HEAD)
  if [ ! -d $WT ]; then git -C /repo worktree add --detach $WT $HEAD >/dev/null 2>&1; else
    ( cd $WT && git checkout -q -- luna && git checkout -q --detach $HEAD ); fi
  ( cd $WT && { git apply $PATCH || git apply --3way $PATCH; } && git diff --stat -- luna | tail -2 ) || echo "SEED-PATCH-DOES-NOT-APPLY $ID"
} > $LOG 2>&1
VERIF_REPO=$WT VERIF_JOBS=${VERIF_JOBS:-4} timeout 5400 ./check $P --tier $TIER --no-evidence >> $LOG 2>&1
echo "SEED-RESULT $ID exit=$? tier=$TIER" >> $LOG
